import Typegen.Analyze
/-! C07 at analysis level: the lazy type discovery (`resolve_types_lazily`) reaches a fixed point — every harvested name
    with an extractable definition is discovered — with the fuel the model uses. -/
namespace DS
open Pj An L


theorem nodup_eraseDups {α : Type} [BEq α] [LawfulBEq α] : ∀ (l : List α), l.eraseDups.Nodup
  | [] => by simp
  | a :: l => by
    rw [List.eraseDups_cons]
    apply List.nodup_cons.mpr
    constructor
    · intro h
      have := List.mem_eraseDups.mp h
      simp at this
    · exact nodup_eraseDups _
termination_by l => l.length
decreasing_by
  simp only [List.length_cons]
  have := List.length_filter_le (fun b => !b == a) l
  omega

theorem filter_sub_len {A B : List Str} (hA : A.Nodup) (hB : B.Nodup) (hsub : ∀ b ∈ B, b ∈ A) :
    (A.filter fun x => !B.contains x).length + B.length ≤ A.length := by
  induction A generalizing B with
  | nil =>
    cases B with
    | nil => simp
    | cons b _ => exact absurd (hsub b (by simp)) (by simp)
  | cons a A' ih =>
    have hA' := (List.nodup_cons.mp hA)
    by_cases ha : a ∈ B
    · have hB' : (B.erase a).Nodup := hB.erase a
      have hsub' : ∀ b ∈ B.erase a, b ∈ A' := by
        intro b hb
        have hbB := List.mem_of_mem_erase hb
        have hne : b ≠ a := by
          intro e; subst e
          exact (List.Nodup.not_mem_erase hB) hb
        rcases List.mem_cons.mp (hsub b hbB) with h | h
        · exact absurd h hne
        · exact h
      have e : (A'.filter fun x => !B.contains x) = (A'.filter fun x => !(B.erase a).contains x) := by
        apply List.filter_congr
        intro x hx
        have hxa : x ≠ a := fun e => hA'.1 (e ▸ hx)
        simp [List.mem_erase_of_ne hxa]
      have hlen : B.length = (B.erase a).length + 1 := by
        rw [List.length_erase_of_mem ha]
        have : 0 < B.length := List.length_pos_of_mem ha
        omega
      have := ih hA'.2 hB' hsub'
      have hf : (List.filter (fun x => !B.contains x) (a :: A')) = List.filter (fun x => !B.contains x) A' := by
        simp [ha]
      rw [hf, e, hlen]
      simp only [List.length_cons]
      omega
    · have hsub' : ∀ b ∈ B, b ∈ A' := by
        intro b hb
        rcases List.mem_cons.mp (hsub b hb) with h | h
        · exact absurd (h ▸ hb) ha
        · exact h
      have := ih hA'.2 hB hsub'
      have hf : (List.filter (fun x => !B.contains x) (a :: A')) = a :: List.filter (fun x => !B.contains x) A' := by
        simp [ha]
      rw [hf]
      simp only [List.length_cons]
      omega

/-- the definition the resolver finds for a name -/
def defOf (files : List File) (n : Str) : Option SInfo := (defFile files n).bind fun f => extractType f.items n

def doneNames (done : List (SInfo × List Str)) : List Str := done.map (·.1.name)
def allDefs (files : List File) : List Str := (files.flatMap fun f => fileDefs f.items).eraseDups

/-- the names that have to be resolved: the roots and every harvested dependency of a resolved type -/
def obl (roots : List Str) (done : List (SInfo × List Str)) : List Str := roots ++ done.flatMap (·.2)

def ClosedR (files : List File) (roots : List Str) (done : List (SInfo × List Str)) : Prop :=
  ∀ x ∈ obl roots done, (defFile files x).isSome = true → (defOf files x).isSome = true → x ∈ doneNames done

def InvR (files : List File) (roots pending : List Str) (done : List (SInfo × List Str)) : Prop :=
  ∀ x ∈ obl roots done, (defFile files x).isSome = true → (defOf files x).isSome = true →
    x ∈ doneNames done ∨ x ∈ pending

def Inv2 (files : List File) (done : List (SInfo × List Str)) : Prop :=
  (doneNames done).Nodup ∧ ∀ x ∈ doneNames done, x ∈ allDefs files

theorem any_name_iff (done : List (SInfo × List Str)) (n : Str) :
    (done.any fun d => d.1.name = n) = true ↔ n ∈ doneNames done := by
  simp only [doneNames, List.any_eq_true, List.mem_map, decide_eq_true_eq]

theorem parseStruct_name {s : StructItem} {info : SInfo} (h : parseStruct s = some info) : info.name = s.name := by
  unfold parseStruct at h
  split at h <;> simp at h <;> (try subst h) <;> rfl

theorem extractType_name {items : List Item} {n : Str} {info : SInfo} (h : extractType items n = some info) :
    info.name = n := by
  unfold extractType at h
  split at h
  · next s hf =>
    have := List.find?_some hf
    simp only [Bool.and_eq_true, decide_eq_true_eq] at this
    rw [parseStruct_name h, this.1]
  · next e hf =>
    have := List.find?_some hf
    simp only [Bool.and_eq_true, decide_eq_true_eq] at this
    simp only [Option.some.injEq] at h
    rw [← h]; exact this.1
  · exact absurd h (by simp)

theorem defFile_mem {files : List File} {x : Str} (h : (defFile files x).isSome = true) : x ∈ allDefs files := by
  unfold defFile at h
  obtain ⟨f, hf⟩ := Option.isSome_iff_exists.mp h
  have hm := List.mem_of_getLast? hf
  have := List.mem_filter.mp hm
  apply List.mem_eraseDups.mpr
  exact List.mem_flatMap.mpr ⟨f, this.1, by simpa using this.2⟩

theorem defOf_name {files : List File} {n : Str} {info : SInfo} (h : defOf files n = some info) : info.name = n := by
  unfold defOf at h
  cases hd : defFile files n with
  | none => simp [hd] at h
  | some f => simp [hd] at h; exact extractType_name h

/-- a duplicate-free list inside another duplicate-free list has at most its length -/
theorem nodup_sub_length {A B : List Str} (hA : A.Nodup) (hB : B.Nodup) (hsub : ∀ b ∈ B, b ∈ A) : B.length ≤ A.length := by
  have := filter_sub_len hA hB hsub
  omega

theorem allDefs_nodup (files : List File) : (allDefs files).Nodup := nodup_eraseDups _

/-- fuel that certainly suffices: one pop per pending name, and at most `N` pushes for each of the at most `N`
    names still to be resolved -/
def mu (files : List File) (pending : List Str) (done : List (SInfo × List Str)) : Nat :=
  pending.length + ((allDefs files).length - done.length) * ((allDefs files).length + 1)

theorem done_le (files : List File) (done : List (SInfo × List Str)) (h2 : Inv2 files done) :
    done.length ≤ (allDefs files).length := by
  have := nodup_sub_length (allDefs_nodup files) h2.1 h2.2
  simpa [doneNames] using this

theorem mu_step (N dl p nx f : Nat) (h1 : dl + 1 ≤ N) (h2 : nx ≤ N)
    (hm : (p + 1) + (N - dl) * (N + 1) ≤ f + 1) : (nx + p) + (N - (dl + 1)) * (N + 1) ≤ f := by
  have e : N - dl = (N - (dl + 1)) + 1 := by omega
  rw [e, Nat.add_mul, Nat.one_mul] at hm
  omega

theorem resolve_closed (files : List File) (roots : List Str) : ∀ (fuel : Nat) (pending : List Str) (done : List (SInfo × List Str)),
    InvR files roots pending done → Inv2 files done → mu files pending done ≤ fuel →
    ClosedR files roots (resolve files fuel pending done) ∧ Inv2 files (resolve files fuel pending done) ∧
    (∀ d ∈ done, d ∈ resolve files fuel pending done)
  | 0, pending, done, h1, h2, hm => by
    have hp : pending = [] := by
      cases pending with
      | nil => rfl
      | cons _ _ => simp [mu] at hm
    subst hp
    simp only [resolve]
    exact ⟨fun x hx h3 h4 => (h1 x hx h3 h4).resolve_right (by simp), h2, fun d hd => hd⟩
  | fuel+1, [], done, h1, h2, hm => by
    simp only [resolve]
    exact ⟨fun x hx h3 h4 => (h1 x hx h3 h4).resolve_right (by simp), h2, fun d hd => hd⟩
  | fuel+1, n :: pending, done, h1, h2, hm => by
    unfold resolve
    by_cases hdone : (done.any fun d => d.1.name = n) = true
    · simp only [hdone, if_true]
      apply resolve_closed files roots fuel pending done _ h2 (by simp [mu] at hm ⊢; omega)
      intro x hx h3 h4
      rcases h1 x hx h3 h4 with h | h
      · exact .inl h
      · rcases List.mem_cons.mp h with rfl | h
        · exact .inl ((any_name_iff done x).mp hdone)
        · exact .inr h
    · simp only [hdone, Bool.false_eq_true, if_false]
      cases hdef : (defFile files n).bind (fun f => extractType f.items n) with
      | none =>
        simp only
        apply resolve_closed files roots fuel pending done _ h2 (by simp [mu] at hm ⊢; omega)
        intro x hx h3 h4
        rcases h1 x hx h3 h4 with h | h
        · exact .inl h
        · rcases List.mem_cons.mp h with rfl | h
          · have : defOf files x = none := hdef
            rw [this] at h4; exact absurd h4 (by simp)
          · exact .inr h
      | some info =>
        simp only
        have hname : info.name = n := defOf_name (files := files) hdef
        have hnd : n ∉ doneNames done := fun hm' => hdone ((any_name_iff done n).mpr hm')
        have hnall : n ∈ allDefs files := by
          cases hf : defFile files n with
          | none => simp [hf] at hdef
          | some f => exact defFile_mem (by simp [hf])
        generalize hdeps : harvestAll (info.fields.map (·.rustType)) = deps
        generalize hnext : (deps.filter fun d => !(done.any fun x => x.1.name = d) && (defFile files d).isSome) = next
        have hdn : deps.Nodup := by rw [← hdeps]; exact nodup_eraseDups _
        have hnn : next.Nodup := by rw [← hnext]; exact hdn.filter _
        have hnsub : ∀ x ∈ next, x ∈ allDefs files := by
          intro x hx
          rw [← hnext] at hx
          have := (List.mem_filter.mp hx).2
          simp only [Bool.and_eq_true] at this
          exact defFile_mem this.2
        have hnlen : next.length ≤ (allDefs files).length := nodup_sub_length (allDefs_nodup files) hnn hnsub
        -- the new invariants
        have h2' : Inv2 files (done ++ [(info, deps)]) := by
          constructor
          · simp only [doneNames, List.map_append, List.map_cons, List.map_nil]
            apply List.nodup_append.mpr
            refine ⟨h2.1, by simp, ?_⟩
            intro a ha b hb
            have : b = info.name := by simpa using hb
            rw [this, hname]
            intro e; rw [e] at ha; exact hnd ha
          · intro x hx
            simp only [doneNames, List.map_append, List.map_cons, List.map_nil, List.mem_append, List.mem_singleton] at hx
            rcases hx with hx | hx
            · exact h2.2 x hx
            · rw [hx, hname]; exact hnall
        have h1' : InvR files roots (next ++ pending) (done ++ [(info, deps)]) := by
          intro x hx h3 h4
          have hdn' : doneNames (done ++ [(info, deps)]) = doneNames done ++ [n] := by
            simp [doneNames, hname]
          rw [hdn']
          have hobl : x ∈ obl roots done ∨ x ∈ deps := by
            simp only [obl, List.flatMap_append, List.flatMap_cons, List.flatMap_nil, List.append_nil, List.mem_append] at hx ⊢
            rcases hx with hx | hx | hx
            · exact .inl (.inl hx)
            · exact .inl (.inr hx)
            · exact .inr hx
          rcases hobl with hx | hx
          · rcases h1 x hx h3 h4 with h | h
            · exact .inl (List.mem_append_left _ h)
            · rcases List.mem_cons.mp h with rfl | h
              · exact .inl (List.mem_append_right _ (by simp))
              · exact .inr (List.mem_append_right _ h)
          · by_cases hxd : x ∈ doneNames done
            · exact .inl (List.mem_append_left _ hxd)
            · refine .inr (List.mem_append_left _ ?_)
              rw [← hnext]
              apply List.mem_filter.mpr
              refine ⟨hx, ?_⟩
              have : (done.any fun y => y.1.name = x) = false := by
                cases hq : (done.any fun y => y.1.name = x) with
                | false => rfl
                | true => exact absurd ((any_name_iff done x).mp hq) hxd
              simp [this, h3]
        have hdl := done_le files _ h2'
        have hmu : mu files (next ++ pending) (done ++ [(info, deps)]) ≤ fuel := by
          have hN : done.length + 1 ≤ (allDefs files).length := by simpa using hdl
          have := mu_step (allDefs files).length done.length pending.length next.length fuel hN hnlen
            (by simpa [mu] using hm)
          simpa [mu] using this
        have ih := resolve_closed files roots fuel (next ++ pending) (done ++ [(info, deps)]) h1' h2' hmu
        refine ⟨ih.1, ih.2.1, fun d hd => ih.2.2 d (List.mem_append_left _ hd)⟩

/-- the files, seeds and resolved list of `analyze` -/
def aFiles (p : Project) : List File := sortedFiles (p.files.filter (fileSelected p.absRoot))
def aSeeds (p : Project) : List Str :=
  let files := aFiles p
  let commands := files.flatMap fun f => fileCommands f.relPath f.items
  let allEvents := files.flatMap fun f => fileEvents f.relPath f.items
  harvestAll ((commands.flatMap fun c => c.channels.map (·.msgType)) ++
    (commands.flatMap fun c => c.params.map (·.rustType) ++ [c.ret]) ++ allEvents.map (·.payload))
def aResolved (p : Project) : List (SInfo × List Str) :=
  let files := aFiles p
  let ndefs := (files.flatMap fun f => fileDefs f.items).length
  resolve files (ndefs * (ndefs + 2) + (aSeeds p).length + 2) (aSeeds p) []

theorem structs_of_resolved (p : Project) :
    (analyze p).structs = (sortBy (fun (d : SInfo × List Str) => d.1.name) (aResolved p)).map (·.1) := rfl

theorem eraseDups_len_le : ∀ (l : List Str), l.eraseDups.length ≤ l.length
  | [] => by simp
  | a :: l => by
    rw [List.eraseDups_cons]
    have := eraseDups_len_le (l.filter fun b => !b == a)
    have h2 := List.length_filter_le (fun b => !b == a) l
    simp only [List.length_cons]
    omega
termination_by l => l.length
decreasing_by
  simp only [List.length_cons]
  have := List.length_filter_le (fun b => !b == a) l
  omega

/-- **C07 at analysis level, completeness of type discovery**: every name harvested from the public surface (parameter,
    return, channel and event payload types) or from a field of a discovered type, for which the project has a
    definition the extractor accepts, is itself discovered — the lazy resolution reaches a fixed point with the fuel
    the model uses -/
theorem C07_discovery_closed (p : Project) :
    ClosedR (aFiles p) (aSeeds p) (aResolved p) := by
  unfold aResolved
  simp only
  refine (resolve_closed (aFiles p) (aSeeds p) _ (aSeeds p) [] ?_ ?_ ?_).1
  · intro x hx _ _
    simp only [obl, List.flatMap_nil, List.append_nil] at hx
    exact .inr hx
  · exact ⟨by simp [doneNames], by simp [doneNames]⟩
  · simp only [mu, List.length_nil, Nat.sub_zero]
    have hN : (allDefs (aFiles p)).length ≤ ((aFiles p).flatMap fun f => fileDefs f.items).length := eraseDups_len_le _
    generalize (allDefs (aFiles p)).length = N at hN ⊢
    generalize ((aFiles p).flatMap fun f => fileDefs f.items).length = M at hN ⊢
    have h1 : N * (N + 1) ≤ M * (M + 2) := Nat.mul_le_mul hN (by omega)
    omega

end DS
