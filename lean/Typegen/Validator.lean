import Typegen.Basic
import Typegen.SerdeAttrs
import Typegen.Visit
/-! Model of `ValidatorParser` (src/analysis/validator_parser.rs): substring scanners over the token
    text of `#[validate(..)]`.  Numbers: `u64` bounds exactly; `f64` bounds as canonical decimal text of
    the literal (what Rust's `Display` prints for literals with <= 15 significant digits). -/
namespace VP
open A SA

def isDigit (c : Char) : Bool := '0' ≤ c ∧ c ≤ '9'
def digitVal (c : Char) : Nat := c.toNat - '0'.toNat

/-- Rust `str::trim` on ASCII whitespace -/
def trimWs (s : Str) : Str := (trimStartWs (trimStartWs s).reverse).reverse

def natOfDigits (s : Str) : Nat := s.foldl (fun a c => a * 10 + digitVal c) 0

/-- `str::parse::<u64>()`: optional `+`, at least one digit, no overflow -/
def parseU64 (s : Str) : Option Nat :=
  let d := match s with | '+' :: r => r | r => r
  if d.isEmpty || !d.all isDigit then none
  else let n := natOfDigits d; if n < 2 ^ 64 then some n else none

def natToStr (n : Nat) : Str := (toString n).toList

/-- split at the first char satisfying `p` -/
def splitAtCh (p : Char → Bool) : Str → Str × Str
  | [] => ([], [])
  | c :: cs => if p c then ([], c :: cs) else let (a, b) := splitAtCh p cs; (c :: a, b)

def dropTrailingZeros (s : Str) : Str := (s.reverse.dropWhile (· = '0')).reverse
def dropLeadingZeros (s : Str) : Str := s.dropWhile (· = '0')

/-- canonical decimal text of a decimal literal `[+-]? digits [. digits] [e [+-] digits]` (also `.5`, `5.`):
    plain notation, no exponent, no superfluous zeros — what `format!("{}", x)` prints for the `f64`
    nearest to a literal of at most 15 significant digits.  `none`: not of this shape. -/
def canonDec (s : Str) : Option Str :=
  let (neg, r0) := match s with | '-' :: r => (true, r) | '+' :: r => (false, r) | r => (false, r)
  let (ip, r1) := splitAtCh (fun c => !isDigit c) r0
  let (fp, r2) := match r1 with
    | '.' :: r => splitAtCh (fun c => !isDigit c) r
    | r => ([], r)
  if ip.isEmpty && fp.isEmpty then none else
  let expo : Option Int := match r2 with
    | [] => some 0
    | e :: r =>
      if e = 'e' || e = 'E' then
        let (eneg, rd) := match r with | '-' :: x => (true, x) | '+' :: x => (false, x) | x => (false, x)
        if rd.isEmpty || !rd.all isDigit then none
        else some (if eneg then -(Int.ofNat (natOfDigits rd)) else Int.ofNat (natOfDigits rd))
      else none
  match expo with
  | none => none
  | some e =>
    -- digits with the decimal point after `ip`; shift by e
    let digits := ip ++ fp
    let pointPos : Int := Int.ofNat ip.length + e
    let (intPart, fracPart) :=
      if pointPos ≤ 0 then ([], List.replicate pointPos.natAbs '0' ++ digits)
      else if pointPos.toNat ≥ digits.length then (digits ++ List.replicate (pointPos.toNat - digits.length) '0', [])
      else (digits.take pointPos.toNat, digits.drop pointPos.toNat)
    let ip' := dropLeadingZeros intPart
    let fp' := dropTrailingZeros fracPart
    let ipS := if ip'.isEmpty then ['0'] else ip'
    let body := if fp'.isEmpty then ipS else ipS ++ ['.'] ++ fp'
    let isZero := ip'.isEmpty && fp'.isEmpty
    some (if neg && !isZero then '-' :: body else if neg then '-' :: body else body)

def sigDigits (s : Str) : Nat :=
  let ds := s.filter isDigit
  (dropTrailingZeros (dropLeadingZeros ds)).length

def kwMin : Str := ['m','i','n']
def kwMax : Str := ['m','a','x']
def kwMessage : Str := ['m','e','s','s','a','g','e']
def kwLength : Str := ['l','e','n','g','t','h']
def kwRange : Str := ['r','a','n','g','e']
def kwEmail : Str := ['e','m','a','i','l']
def kwUrl : Str := ['u','r','l']

/-- the text of the value after `key ... =` up to the next `,` (or the end), trimmed -/
def valueText (key content : Str) : Option Str :=
  match findSub key content with
  | none => none
  | some kp =>
    let tail := content.drop kp
    match findCh '=' tail with
    | none => none
    | some eq =>
      let after := tail.drop (eq + 1)
      match findCh ',' after with
      | some c => some (trimWs (after.take c))
      | none => some (trimWs after)

def replaceSub2 (a b : Char) (r : Str) : Str → Str
  | [] => []
  | [x] => [x]
  | x :: y :: rest => if x = a ∧ y = b then r ++ replaceSub2 a b r rest else x :: replaceSub2 a b r (y :: rest)

/-- the five sequential `replace`s of the unescape step -/
def unescapeMsg (s : Str) : Str :=
  replaceSub2 '\\' '\\' ['\\'] (replaceSub2 '\\' 't' ['\t'] (replaceSub2 '\\' 'n' ['\n']
    (replaceSub2 '\\' '\'' ['\''] (replaceSub2 '\\' '"' ['"'] s))))

/-- scan for the closing quote with backslash escapes; returns the raw text before it -/
def scanQuoted (q : Char) : Bool → Str → Option Str
  | _, [] => none
  | true, c :: cs => (scanQuoted q false cs).map (c :: ·)
  | false, c :: cs =>
    if c = '\\' then (scanQuoted q true cs).map (c :: ·)
    else if c = q then some []
    else (scanQuoted q false cs).map (c :: ·)

/-- `parse_message_from_content` (with `char_indices`, i.e. after the K11a fix) -/
def parseMessage (content : Str) : Option Str :=
  match findSub kwMessage content with
  | none => none
  | some mp =>
    let tail := content.drop mp
    match findCh '=' tail with
    | none => none
    | some eq =>
      match trimStartWs (tail.drop (eq + 1)) with
      | [] => none
      | q :: rest =>
        if q = '"' || q = '\'' then (scanQuoted q false rest).map unescapeMsg else none

/-- the `(`…`)` content after keyword `kw`: up to the first `)` after the first `(` after `kw` -/
def parenContent (kw tokens : Str) : Option Str :=
  match findSub kw tokens with
  | none => none
  | some start =>
    let tail := tokens.drop start
    match findCh '(' tail with
    | none => none
    | some ps =>
      let tail2 := tail.drop ps
      match findCh ')' tail2 with
      | none => none
      | some pe => some ((tail2.take pe).drop 1)

structure NumBound (α : Type) where
  min : Option α
  max : Option α
  message : Option Str
  deriving DecidableEq, Repr

/-- `parse_length_from_tokens` -/
def parseLength (tokens : Str) : Option (NumBound Nat) :=
  if !containsSub kwLength tokens then none else
  match parenContent kwLength tokens with
  | none => some { min := none, max := none, message := none }
  | some content =>
    some { min := (valueText kwMin content).bind parseU64,
           max := (valueText kwMax content).bind parseU64,
           message := parseMessage content }

/-- `parse_range_from_tokens`; bounds are the trimmed literal text (the harness validates the numeric reading) -/
def parseRange (tokens : Str) : Option (NumBound Str) :=
  if !containsSub kwRange tokens then none else
  match parenContent kwRange tokens with
  | none => some { min := none, max := none, message := none }
  | some content =>
    some { min := valueText kwMin content, max := valueText kwMax content, message := parseMessage content }

structure Parsed where
  length : Option (NumBound Nat)
  range : Option (NumBound Str)
  email : Bool
  url : Bool
  deriving DecidableEq, Repr

/-- `parse_validator_attributes` over the `#[validate(..)]` attributes of one field: `none` tokens = the
    attribute is not a list (`#[validate]`) -/
def parseValidator (attrs : List (Option Str)) : Option Parsed :=
  if attrs.isEmpty then none else
  some (attrs.foldl (fun acc a =>
    match a with
    | none => acc
    | some t =>
      { length := match parseLength t with | some l => some l | none => acc.length,
        range := match parseRange t with | some r => some r | none => acc.range,
        email := acc.email || containsSub kwEmail t,
        url := acc.url || containsSub kwUrl t }) { length := none, range := none, email := false, url := false })

/-- the parsed validator as the schema builder receives it: `u64` bounds printed, `f64` bounds as the canonical decimal
    of the literal (a bound whose text is no number is dropped, as `parse::<f64>()` failing drops it) -/
def toValidator (p : Parsed) : V.Validator :=
  { length := p.length.map fun b => { min := b.min.map natToStr, max := b.max.map natToStr, message := b.message },
    range := p.range.map fun b => { min := b.min.bind canonDec, max := b.max.bind canonDec, message := b.message },
    email := p.email, url := p.url }

end VP
