import Driver.Util
import Driver.Graph
import Driver.Types
import Driver.Names
import Driver.Validators
import Driver.History
import Driver.Config
import Driver.ProjectOracles
import Driver.Robust
/-! `tgdriver`: reads one JSON request per line on stdin, answers one JSON line per request. -/
open Lean Drv

def dispatch (op : String) (inp imp : Json) : Except String Json :=
  match op with
  | "topo" => opTopo inp imp
  | "kahn" => opKahn inp imp
  | "typeStr" => opTypeStr inp imp
  | "parseTS" => opParseTS inp imp
  | "site" => opSite inp imp
  | "prefix" => opPrefix inp imp
  | "name" => opName inp imp
  | "fieldAttrs" => opFieldAttrs inp imp
  | "validator" => opValidator inp imp
  | "history" => opHistory inp imp
  | "configSave" => opConfigSave inp imp
  | "configResolve" => opConfigResolve inp imp
  | "shape" => opShape inp imp
  | "project" => opProject inp imp
  | "robustSrc" => opRobust inp imp
  | _ => .error s!"unknown op {op}"

def handleLine (line : String) : String :=
  match Json.parse line with
  | .error e => (obj [("error", jS s!"parse: {e}")]).compress
  | .ok j =>
    let id := (j.getObjVal? "id").toOption.getD Json.null
    let op := (getS j "op").toOption.getD ""
    let inp := (j.getObjVal? "in").toOption.getD Json.null
    let imp := (j.getObjVal? "impl").toOption.getD Json.null
    let h := (j.getObjVal? "h").toOption.getD Json.null
    match dispatch op inp imp with
    | .ok r => (r.setObjVal! "id" id |>.setObjVal! "op" (jS op) |>.setObjVal! "h" h).compress
    | .error e => (obj [("id", id), ("op", jS op), ("error", jS e)]).compress

partial def loop (hin hout : IO.FS.Stream) : IO Unit := do
  let line ← hin.getLine
  if line.isEmpty then return ()
  let l := line.trimAscii.toString
  if !l.isEmpty then
    hout.putStrLn (handleLine l)
  loop hin hout

def main : IO Unit := do
  let hin ← IO.getStdin
  let hout ← IO.getStdout
  loop hin hout
  hout.flush
