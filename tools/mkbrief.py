import json, glob, os, sys, subprocess
rnd = sys.argv[1]; ids = sys.argv[2:]
props = {json.loads(l)['id']: json.loads(l) for l in open('/verif/properties.jsonl')}
tmpl = open('/tmp/mut4-brief-C08.txt').read()
head, rest = tmpl.split('{\n "id": "C08"', 1)
_, tail = rest.split('Your task: produce TWO', 1)
tail = 'Your task: produce TWO' + tail
pre_prior, post = tail.split('Other people have ALREADY tried', 1)
post = post.split('For each mutation i in {1, 2}', 1)[1]
for pid in ids:
    wt = '/tmp/mut%s-%s' % (rnd, pid)
    subprocess.run(['git', '-C', '/repo', 'worktree', 'add', '--detach', wt, 'HEAD'], check=True, stdout=subprocess.DEVNULL, stderr=subprocess.DEVNULL)
    prior = []
    for m in sorted(glob.glob('/verif/seeded/%s-*/meta.json' % pid)):
        d = json.load(open(m))
        o = d.get('original_meta', d)
        prior.append('  - %s (needed: %s)' % ((o.get('summary') or '')[:260], (o.get('needs_to_manifest') or '')[:160]))
    txt = (head + json.dumps(props[pid], indent=1) + '\n\n' + pre_prior +
           'Other people have ALREADY tried the following ideas for this property; do NOT repeat them or close variants of them (choose different code sites and different triggers):\n'
           + '\n'.join(prior) + '\n\nFor each mutation i in {1, 2}' + post)
    txt = txt.replace('/tmp/mut4-C08', wt)
    open('/tmp/mut%s-brief-%s.txt' % (rnd, pid), 'w').write(txt)
    print(pid, len(prior))
