import json,os
notes={
"C03-21":"part 20: attributes in the layouts a formatter or a macro leaves behind (`#[ tauri::command ]`, `# [command]`, `#[tauri :: command]`, one token per line), chosen by the attribute's own text so that a project renders the same way every time",
"C10-22":"part 20: fields spelled as raw identifiers (`r#type`, `r#ref`, `r#match`) in the adversarial project stream",
"C04-21":"reported on its first run (the qualified `Option` spellings of part 16 reach the parameter stream); part 20 adds `std::option::Option<String>` parameters to the project stream as well",
"C04-22":"part 20: a project type named like an injected one (`State`, `Window`, `Request`) among the well-known names the first type of a project takes",
"C15-21":"part 20: generic types whose only arguments are lifetimes (`Option<'static>`, `Result<Option<'a>, String>`, `Vec<'a>`, `Box<'static>`) in the robustness stream",
"C15-22":"part 20: NOT reachable by any generator: the change panics on one document in 2^28 (a digest below 2^36).  The agent's witness (a project whose only event is `media-queued-render-job`) is kept as a corpus project of the CLI stream, which is what reports it; DESIGN 12.7 states the limit",
"C01-21":"part 20: `email` / `url` validators with a message of their own containing a quote, a backslash, a line break, in the project stream (reported by C01 at seed 1; the attribute is one of five variants of one of nine field decorations)",
"C01-22":"reported on its first run as a correspondence break (the recogniser of C01 accepts function bodies as balanced token sequences and does not see a missing comma there); part 20 adds commands with three or four channels after a value parameter",
}
for n,t in notes.items():
    p='/verif/seeded/%s/meta.json'%n
    m=json.load(open(p)); m['strengthening']=t
    json.dump(m,open(p,'w'),indent=1,ensure_ascii=False)
print(len(notes))
