cd /verif
run(){ while [ ! -d /tmp/mutres20/$1 ]; do sleep 20; done; bin/seedrun /tmp/mutres20/$1/$2 $1-$3 --checks $4 2>&1 | tail -4; }
run C10 1 21 C10
run C10 2 22 C10
run C04 1 21 C04
run C04 2 22 C04
run C15 1 21 C15
run C15 2 22 C15
run C01 1 21 C01
run C01 2 22 C01
echo R20DONE
