cd /verif
run(){ bin/seedrun seeded/$1 $1 --checks $2 --skip-confirm 2>&1 | tail -3; }
run C03-21 C03
run C10-22 C10
run C04-22 C04
run C15-21 C15
run C15-22 C15
run C01-21 C01
echo R20CDONE
