HOOK_COMMITS = []
NOTES = ("All checks: Lean 4 proof about a handwritten model + differential correspondence against /repo's working tree "
         "on every run. known_findings.json lists genuine defects recorded rather than repaired. See DESIGN.md.")
NOT_APPLICABLE = {}
CHECKS = {
    "C20": dict(
        text="Unbounded proof (all graphs, all request sets, all hash iteration orders as universally quantified list orders) "
             "of the DFS order theorem, exact output set, termination, and Kahn ok<->acyclic + validity; tied to the code by exact "
             "output equality with the observed hash orders on every digraph up to 3/4 nodes and random graphs up to 12.",
        design_ref="DESIGN.md section 7.C20, Appendix A, B",
        note="Trusted: Lean kernel; the hand-written model D.visit/K.kahn (validated per case against the real routines); "
             "HashSet order observed, not modelled; Kahn's internal order unobservable (ok/err + validity compared).",
        technique="Lean 4 theorems (induction with DFS stack invariant; Kahn pending-edge invariant) + differential correspondence",
    ),
}
