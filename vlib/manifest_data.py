HOOK_COMMITS = []
NOTES = ("All checks: Lean 4 proof about a handwritten model + differential correspondence against /repo's working tree "
         "on every run. known_findings.json lists genuine defects recorded rather than repaired. See DESIGN.md.")
NOT_APPLICABLE = {}
CHECKS = {
    "C20": dict(
        text="Unbounded proof (all graphs, all request sets, all hash iteration orders as universally quantified list orders) "
             "of the DFS order theorem, exact output set, termination, and Kahn ok<->acyclic + validity; tied to the code by exact "
             "output equality with the observed hash orders on every digraph up to 3/4 nodes and random graphs up to 12.",
        design_ref="DESIGN.md section 7.C20, Appendix A, B",
        note="Trusted: Lean kernel; the hand-written model D.visit/K.kahn (validated per case against the real routines); "
             "HashSet order observed, not modelled; Kahn's internal order unobservable (ok/err + validity compared).",
        technique="Lean 4 theorems (induction with DFS stack invariant; Kahn pending-edge invariant) + differential correspondence",
    ),
    "C05": dict(
        text="Unbounded proof, for every supported type expression at any depth, that flatten-to-string -> parse_type_structure -> visit_type "
             "equals the canonical print of the README denotation outside two decidable exclusion classes (first-comma splitting, Option directly "
             "under an array); the excluded classes are shown false by kernel-evaluated witnesses and replayed on the real code as known findings. "
             "Tied to the code by exact equality of (type string, TypeStructure, rendered text) at all five translation sites, exhaustively to depth 2/3.",
        design_ref="DESIGN.md section 7.C05, Appendix E",
        note="Trusted: Lean kernel; model L.parseTS / V.visitTs / V.addPrefix validated per case; spec T.denote/T.printSpec; recogniser T.parseTsTy; syn.",
        technique="Lean 4 theorems (L1 string round trip by mutual structural induction, L2 printer equality) + differential correspondence",
    ),
    "C04": dict(
        text="Unbounded proof that on every snake_case identifier the tool's default parameter key (serde camelCase field rule) equals the key "
             "Tauri's macro expects (heck lowerCamel), plus the precedence rename > command rename_all > configured default; tied to the code by "
             "per-case equality with the real NamingContext and the real heck crate.",
        design_ref="DESIGN.md section 7.C04, Appendix D",
        note="Trusted: Lean kernel; transcription of heck 0.5 on snake strings (checked per case against the crate); Tauri macro assumed = heck::to_lower_camel_case.",
        technique="Lean 4 theorem (scan characterisation of heck + induction) + differential correspondence",
    ),
    "C06": dict(
        text="Proof that struct-field keys equal serde's wire names for all 8 rules x all renames x all identifiers; for variants the proved part is the "
             "agreeing rule set, the rest is shown false by kernel witnesses (known finding K06a). Attribute scanner: skip decision proved for all token lists; "
             "tied to the real SerdeParser/StructParser/StructContext per case over the attribute item grammar.",
        design_ref="DESIGN.md section 7.C06, Appendix G",
        note="Trusted: Lean kernel; transcription of serde_derive case.rs; proc_macro2 token text observed per case.",
        technique="Lean 4 theorems + kernel-evaluated witnesses + differential correspondence",
    ),
    "C11": dict(
        text="Proof that the rendering stage reproduces every validator value exactly (bounds, email/url, message escaped so that it lexes back to the "
             "same Unicode text, through Option/arrays, nothing without a validator); the scanning stage is a mirrored model tied per case to the real "
             "ValidatorParser, with its failure classes recorded as known findings and witnessed in the kernel.",
        design_ref="DESIGN.md section 7.C11, Appendix H",
        note="Trusted: Lean kernel; canonical-decimal model of f64 Display (<=15 significant digits); JS string lexer; proc_macro2 token text observed per case.",
        technique="Lean 4 theorems (escape round trip, chain exactness) + differential correspondence",
    ),
}
