HOOK_COMMITS = []
NOTES = ("All checks: Lean 4 proof about a handwritten model + differential correspondence against /repo's working tree "
         "on every run. known_findings.json lists genuine defects recorded rather than repaired. See DESIGN.md.")
NOT_APPLICABLE = {}
CHECKS = {
    "C20": dict(
        text="Unbounded proof (all graphs, all request sets, all hash iteration orders as universally quantified list orders) "
             "of the DFS order theorem, exact output set, termination, and Kahn ok<->acyclic + validity; tied to the code by exact "
             "output equality with the observed hash orders on every digraph up to 3/4 nodes and random graphs up to 12.",
        design_ref="DESIGN.md section 7.C20, Appendix A, B",
        note="Trusted: Lean kernel; the hand-written model D.visit/K.kahn (validated per case against the real routines); "
             "HashSet order observed, not modelled; Kahn's internal order unobservable (ok/err + validity compared).",
        technique="Lean 4 theorems (induction with DFS stack invariant; Kahn pending-edge invariant) + differential correspondence",
    ),
    "C05": dict(
        text="Unbounded proof, for every supported type expression at any depth, that flatten-to-string -> parse_type_structure -> visit_type "
             "equals the canonical print of the README denotation outside two decidable exclusion classes (first-comma splitting, Option directly "
             "under an array); the excluded classes are shown false by kernel-evaluated witnesses and replayed on the real code as known findings. "
             "Tied to the code by exact equality of (type string, TypeStructure, rendered text) at all five translation sites, exhaustively to depth 2/3.",
        design_ref="DESIGN.md section 7.C05, Appendix E",
        note="Trusted: Lean kernel; model L.parseTS / V.visitTs / V.addPrefix validated per case; spec T.denote/T.printSpec; recogniser T.parseTsTy; syn.",
        technique="Lean 4 theorems (L1 string round trip by mutual structural induction, L2 printer equality) + differential correspondence",
    ),
    "C10": dict(
        text="Proof that the plain renderer and the schema builder describe the same shape for every type structure (any depth) without sets and Result, "
             "that the declaration-side shape is the one read off the C05 denotation, and that every JSON value of the declared type is accepted by the schema "
             "(Result included); sets are shown to be rejected entirely (K10a) and Result to differ in shape (K10b) by kernel-checked statements; tied to the code by "
             "reading the five real texts per type (both modes, parameter and field site) into shapes with two parsers, exhaustively to depth 2/3, and by generating "
             "every random project in both modes and comparing the two types.ts item by item.",
        design_ref="DESIGN.md section 7.C10",
        note="Trusted: Lean kernel; Shape vocabulary and the two readers (parseTsTy+shapeOfTs, parseZod+shapeOfZ), run on every real text; Acc as the meaning of structural acceptance.",
        technique="Lean 4 theorems (mutual structural induction over TypeStructure; inductive acceptance relation) + differential correspondence in both output modes",
    ),
    "C15": dict(
        text="Partial: proof that parse_rename's byte-offset arithmetic never slices out of range or inside a character for any token string "
             "(refinement of the character-level model; the pre-fix arithmetic is refuted by a kernel-checked witness), that the guarded fixed-offset slices of the "
             "type-string parsers are in range, and that the analysis model does not depend on files that do not parse; the runtime part of the statement "
             "(syn, tera, recursion depth) is covered by running the real analyser, both generators and the CLI on grammar-generated exotic sources, non-Rust text, "
             "every .rs file of the repository and the cargo registry and truncations/mutations of them, with caught unwinds and an isolation comparison.",
        design_ref="DESIGN.md section 7.C15",
        note="Trusted: Lean kernel; byte-level slicing model B.*; syn/tera/walkdir/stack are runtime and only exercised, not modelled.",
        technique="Lean 4 theorems (byte-offset refinement by induction on the scan loop; filter lemma for isolation) + corpus/fuzz differential runs with catch_unwind and CLI exit status",
    ),
    "C04": dict(
        text="Unbounded proof that on every snake_case identifier the tool's default parameter key (serde camelCase field rule) equals the key "
             "Tauri's macro expects (heck lowerCamel), plus the precedence rename > command rename_all > configured default; tied to the code by "
             "per-case equality with the real NamingContext and the real heck crate; proof that, for parameter lists in the statement's spellings, exactly the non-injected parameters become keys (value or channel, each once); the source's literal table of injected types is re-read on every run.",
        design_ref="DESIGN.md section 7.C04, Appendix D",
        note="Trusted: Lean kernel; transcription of heck 0.5 on snake strings (checked per case against the crate); Tauri macro assumed = heck::to_lower_camel_case.",
        technique="Lean 4 theorem (scan characterisation of heck + induction) + differential correspondence",
    ),
    "C06": dict(
        text="Proof that struct-field keys equal serde's wire names for all 8 rules x all renames x all identifiers; for variants the proved part is the "
             "agreeing rule set, the rest is shown false by kernel witnesses (known finding K06a). Attribute scanner: skip decision proved for all token lists; "
             "tied to the real SerdeParser/StructParser/StructContext per case over the attribute item grammar, and to the emitted types.ts of random "
             "projects (every declaration carries exactly the wire names of its fields / variants).",
        design_ref="DESIGN.md section 7.C06, Appendix G",
        note="Trusted: Lean kernel; transcription of serde_derive case.rs; proc_macro2 token text observed per case.",
        technique="Lean 4 theorems + kernel-evaluated witnesses + differential correspondence",
    ),
    "C11": dict(
        text="Proof that the rendering stage reproduces every validator value exactly (bounds, email/url, message escaped so that it lexes back to the "
             "same Unicode text, through Option/arrays, nothing without a validator); the scanning stage is a mirrored model tied per case to the real "
             "ValidatorParser, with its failure classes recorded as known findings and witnessed in the kernel.",
        design_ref="DESIGN.md section 7.C11, Appendix H",
        note="Trusted: Lean kernel; canonical-decimal model of f64 Display (<=15 significant digits); JS string lexer; proc_macro2 token text observed per case.",
        technique="Lean 4 theorems (escape round trip, chain exactness) + differential correspondence",
    ),
    "C13": dict(
        text="Proof that every ordered output is computed from a *sorted* enumeration and is therefore the same for every iteration order of the "
             "hash-based collections and of the directory listing (order = universally quantified permutation); tied to the code by byte comparison of "
             "N fresh processes (fresh hash seeds), verbosity/visualisation variants and semantics-preserving source transformations on random multi-file projects. Extended: the whole analysis and all four generated files of the model are invariant under every permutation of the file enumeration (C13_output_permutation_invariant).",
        design_ref="DESIGN.md section 7.C13",
        note="Trusted: Lean kernel; Rust's String/PathBuf Ord = code-point lexicographic; the model's whole-pipeline output is tied by the project-level correspondence (C02/C07 ops).",
        technique="Lean 4 theorems (sorting is permutation-invariant: Perm.eq_of_pairwise) + multi-process differential runs",
    ),
    "C14": dict(
        text="Proof over the run model (plan of filesystem operations) that after a complete run any number of further non-forced runs execute no operation, "
             "and that a forced run always executes the whole plan whatever the cache state, force = flag or config; tied to the real binary and the build-script path "
             "by histories whose observations (action, files written by mtime, cache record) must equal the model's, plus byte+mtime snapshots on multi-file projects.",
        design_ref="DESIGN.md section 7.C14, Appendix I",
        note="Trusted: Lean kernel; run model validated per history against the real processes; POSIX fs semantics.",
        technique="Lean 4 theorems on a state machine + process-level differential histories",
    ),
    "C17": dict(
        text="Proof that the cache invariant holds after every prefix of every run's operation plan (all crash points) and after every single-operation fault, "
             "that such faults are reported as failure with no cache record left, and that after any history the next successful run restores a fresh generation; "
             "tied to the real binary by obstacle-injected faults at every write position on both paths, with reverted edits, compared with the model per history.",
        design_ref="DESIGN.md section 7.C17, Appendix I",
        note="Trusted: Lean kernel; fault = one failing operation, crash = prefix of the plan; the failing cache-record write itself is covered by the theorems only.",
        technique="Lean 4 invariant proof over operation prefixes + fault-injection histories",
    ),
    "C08": dict(
        text="Proof that a source-independent cache invariant is preserved by every history of edits, deletions, cache losses, runs, faults and crashes, "
             "hence 'success means current' for every history, given key soundness; key soundness is proved for the concrete analysis + generator model "
             "(KeySound.lean: the generation is a function of the hashed view; C08_concrete has no hypothesis left about the key) and tied to the code at table level against the hash-struct field lists "
             "extracted from the source on every run (a forgotten field breaks the build of the theorem); tied to the real binary by edit/run/delete histories on both paths "
             "with byte comparison against a forced generation.",
        design_ref="DESIGN.md section 7.C08, Appendix I",
        note="Trusted: Lean kernel; extractor (syn); hash injectivity; one representative edit per edit class.",
        technique="Lean 4 invariant proof + extracted-table obligation (decide) + process-level differential histories",
    ),
    "C16": dict(
        text="Proof that every name the tool can write or remove in the output directory (generator file names, dependency graphs, cache record, write probe, "
             "and everything the cleanup predicate accepts - for all file names) is one of the reserved names of the statement; the name tables and the cleanup predicate are "
             "extracted from the source on every run, so widening a pattern breaks the theorem; tied to the real binary and build path by whole-sandbox snapshots around every action.",
        design_ref="DESIGN.md section 7.C16",
        note="Trusted: Lean kernel; extractor (syn); 'all operations are relative to the output directory' is by construction of the model and validated by snapshots.",
        technique="Lean 4 theorems over extracted tables (decide + lemma lifting to all names) + sandbox snapshot differential runs",
    ),
    "C19": dict(
        text="Proof, for every JSON object document and every settings value, that saving preserves the value of every other top-level key and of every other plugin entry, "
             "that the written block reads back as the written settings, and of the precedence flag > file > default with rejection of an invalid effective configuration before any write; "
             "tied to the code by the real save/load functions on random documents and by the CLI over all flag subsets x file blocks, each compared with the model.",
        design_ref="DESIGN.md section 7.C19",
        note="Trusted: Lean kernel; serde_json value semantics; JSON objects as association lists with unique keys; effective settings observed externally.",
        technique="Lean 4 theorems on an association-list JSON model + differential correspondence (in-process and CLI)",
    ),
    "C18": dict(
        text="Unbounded proof, for the TypeScript renderer and the Zod schema builder, that rendering with a mapping table equals rendering the substituted structure without a table "
             "(every depth, every constructor position), that a mapped name is emitted as its target's schema and never as <Name>Schema, and that structures without mapped names render "
             "identically; generic keys survive the resolver as one name; tied to the code at all five sites and both modes with mapped-vs-unmapped comparison per case.",
        design_ref="DESIGN.md section 7.C18",
        note="Trusted: Lean kernel; renderer models validated per case; positions of the C05/C02 findings excluded; project-level 'still declared' case is finding K18a.",
        technique="Lean 4 theorems (mutual structural induction over TypeStructure) + differential / metamorphic correspondence",
    ),
    "C03": dict(
        text="Proof over the analysis/generation model that the commands module holds exactly one wrapper per analysed command (both modes), named by camelCase, that sorting the files only reorders, "
             "and that an unselected (unparsable / non-.rs / under target or .git) file leaves the whole analysis unchanged; tied to the code by whole-pipeline correspondence and a wrapper-bijection oracle on the real commands.ts. Extended: for every project path without a target/.git component the tool's substring file filter equals the statement's component filter and the discovered commands are exactly the specified ones (C03_commands_exactly_statement); the literals of is_tauri_command and of the file walk are re-read from the source on every run.",
        design_ref="DESIGN.md section 7.C03", note="Trusted: Lean kernel; the hand-written analysis + generation model (tied per case: whole analysis and all four file texts modulo whitespace); syn / walkdir / tera / proc_macro2 modelled; exclusion classes stated on the input.",
        technique="Lean 4 theorems on the project model + whole-pipeline differential correspondence"),
    "C07": dict(
        text="Proof that every declared type is a discovered serde type, is declared once, and is reachable from the public surface through field types (soundness of the worklist closure, any fuel), and that every "
             "serde-defined seed is declared; the completeness of the closure is tied per case by an independent reachability oracle on the real types.ts. Extended: declared = reachable ∩ discovered, both directions, over the generation model (completeness of the worklist closure with the fuel used); should_include's literals re-read on every run.",
        design_ref="DESIGN.md section 7.C07, Appendix F", note="Trusted: Lean kernel; the hand-written analysis + generation model (tied per case: whole analysis and all four file texts modulo whitespace); syn / walkdir / tera / proc_macro2 modelled; exclusion classes stated on the input.",
        technique="Lean 4 theorems (closure soundness by induction over the worklist) + whole-pipeline differential correspondence"),
    "C09": dict(
        text="Proof that the Zod struct schemas are emitted in a DFS order in which every recorded dependency precedes its dependent unless on a common cycle, that the DFS never exhausts its fuel, that every used struct is emitted once, "
             "and that parameter schemas follow all struct schemas; the order is a function of the sets only (sorted iteration), so it holds for every hash order; tied by an evaluation-order oracle on the real types.ts.",
        design_ref="DESIGN.md section 7.C09, Appendix A", note="Trusted: Lean kernel; the hand-written analysis + generation model (tied per case: whole analysis and all four file texts modulo whitespace); syn / walkdir / tera / proc_macro2 modelled; exclusion classes stated on the input.",
        technique="Lean 4 theorems (instance of the C20 DFS order theorem) + whole-pipeline differential correspondence"),
    "C12": dict(
        text="Proof that the analysed events have pairwise distinct names which are exactly the literal names of the emit calls found, that the events module holds exactly one listener per event subscribed to its name, and that without events "
             "no events module is written or re-exported; tied by a listener oracle on the real events.ts / index.ts over all documented placements and receiver forms.",
        design_ref="DESIGN.md section 7.C12", note="Trusted: Lean kernel; the hand-written analysis + generation model (tied per case: whole analysis and all four file texts modulo whitespace); syn / walkdir / tera / proc_macro2 modelled; exclusion classes stated on the input.",
        technique="Lean 4 theorems (dedup fold invariant) + whole-pipeline differential correspondence"),
    "C02": dict(
        text="Proof that index.ts re-exports exactly the files written, that declared struct names are pairwise distinct and are exactly the used names, that a wrapper refers to types.<T>Params exactly when it is declared, and that every Zod "
             "schema (enums included) has its inferred alias; closedness of type references is tied per case by resolver oracles on the real files.",
        design_ref="DESIGN.md section 7.C02", note="Trusted: Lean kernel; the hand-written analysis + generation model (tied per case: whole analysis and all four file texts modulo whitespace); syn / walkdir / tera / proc_macro2 modelled; exclusion classes stated on the input.",
        technique="Lean 4 theorems on the project model + resolver oracles on the real files"),
    "C01": dict(
        text="Proof that every hole filler is of its syntactic category for all inputs (string literals escape/lex round trip over all Unicode; function, type and listener identifiers consist of identifier characters), "
             "with the skeleton decided by a Lean recogniser of the emitted TypeScript subset run on every real file of every generated project (both modes), and the file texts tied to the model modulo whitespace.",
        design_ref="DESIGN.md section 7.C01, Appendix H",
        note="Trusted: Lean kernel; the recogniser as definition of syntactic validity (no tsc offline); template text transcribed by hand and compared per case. Partial: skeleton validity is checked, not proved.",
        technique="Lean 4 theorems on hole fillers + Lean recogniser on real output + whole-pipeline differential correspondence"),
}
