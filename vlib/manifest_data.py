HOOK_COMMITS = []
NOTES = ("All checks: Lean 4 proof about a handwritten model + differential correspondence against /repo's working tree "
         "on every run. known_findings.json lists genuine defects recorded rather than repaired. See DESIGN.md.")
NOT_APPLICABLE = {}
CHECKS = {
    "C20": dict(
        text="Unbounded proof (all graphs, all request sets, all hash iteration orders as universally quantified list orders) "
             "of the DFS order theorem, exact output set, termination, and Kahn ok<->acyclic + validity; tied to the code by exact "
             "output equality with the observed hash orders on every digraph up to 3/4 nodes and random graphs up to 12.",
        design_ref="DESIGN.md section 7.C20, Appendix A, B",
        note="Trusted: Lean kernel; the hand-written model D.visit/K.kahn (validated per case against the real routines); "
             "HashSet order observed, not modelled; Kahn's internal order unobservable (ok/err + validity compared).",
        technique="Lean 4 theorems (induction with DFS stack invariant; Kahn pending-edge invariant) + differential correspondence",
    ),
    "C05": dict(
        text="Unbounded proof, for every supported type expression at any depth, that flatten-to-string -> parse_type_structure -> visit_type "
             "equals the canonical print of the README denotation outside two decidable exclusion classes (first-comma splitting, Option directly "
             "under an array); the excluded classes are shown false by kernel-evaluated witnesses and replayed on the real code as known findings. "
             "Tied to the code by exact equality of (type string, TypeStructure, rendered text) at all five translation sites, exhaustively to depth 2/3.",
        design_ref="DESIGN.md section 7.C05, Appendix E",
        note="Trusted: Lean kernel; model L.parseTS / V.visitTs / V.addPrefix validated per case; spec T.denote/T.printSpec; recogniser T.parseTsTy; syn.",
        technique="Lean 4 theorems (L1 string round trip by mutual structural induction, L2 printer equality) + differential correspondence",
    ),
}
