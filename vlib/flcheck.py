"""Function-level / in-process properties: Lean theorems + harness|driver correspondence."""
import json
import os
import sys
import time

from . import core
from .core import log


def run(spec, pid, tier, seed, replay=None):
    t0 = time.time()
    known, fixed = core.load_known(pid)
    notes = []
    # 1. rebuild the real code (path dependency on /repo's working tree) and the harness
    try:
        core.build_harness()
        if spec.get("needs_cli"):
            core.build_cli()
    except core.BuildFailed as e:
        return core.tie_broken(pid, "harness build", e)
    # 2. proof side: theorems of this property + driver, audit of axioms
    # the tables read off /repo's source and the toolchain (decision-table literals, hashed fields, Unicode classes) are
    # regenerated before every proof build: the models and several theorems import them
    try:
        core.regen_tables(core.extract_tables())
    except Exception as e:
        return core.tie_broken(pid, "table extraction", e)
    pre = spec.get("pre_lake")
    if pre:
        pre()
    ok_thm, out_thm = core.lake_build([spec["theorems"]])
    ok_drv, out_drv = core.lake_build(["tgdriver"])
    if not ok_drv:
        print("ERROR: model/driver does not build:\n" + out_drv[-3000:])
        return 2
    audit_res, checker_cmd = ([], "")
    if ok_thm:
        audit_res, checker_cmd = core.audit(pid, spec["theorems"])
    forbidden = core.forbidden_scan()
    obligations = len(audit_res)
    discharged = sum(1 for _, _, ok in audit_res if ok)
    proof_broken = (not ok_thm) or obligations == 0 or discharged != obligations or bool(forbidden)
    if tier == "thorough" and ok_thm:
        rc, out = core.sh(["lake", "env", "leanchecker", spec["theorems"]], cwd=core.LEAN, timeout=3600)
        notes.append("leanchecker %s rc=%d" % (spec["theorems"], rc))
        if rc != 0:
            proof_broken = True
            notes.append(out[-500:])
        checker_cmd += " && lake env leanchecker " + spec["theorems"]

    tally = core.Tally(pid, known, spec.get("only_oracles"), spec.get("excluded_classes"), spec.get("oracle_known"))
    if replay:
        req, resp = core.pipeline(pid + ".replay", [core.TGH, "replay"], stdin_path=replay)
        tally.consume("replay", req, resp)
        for line in open(resp):
            print(line.rstrip())
        bad = tally.violations or tally.disagreements or tally.known_hits
        print("REPLAY %s: %s" % (replay, "still failing" if bad else "passes"))
        return 1 if bad else 0

    # 3. corpus first (minimised past failures + known-finding witnesses), then the generators
    corpus = os.path.join(core.ROOT, "corpus", pid + ".jsonl")
    if os.path.exists(corpus) and os.path.getsize(corpus) > 0:
        req, resp = core.pipeline(pid + ".corpus", [core.TGH, "replay"], stdin_path=corpus)
        tally.consume("corpus", req, resp)
    # known-finding witnesses are replayed separately so that each can be reported
    still = []
    for k in known:
        if k.get("status", "open") != "open" or "witness" not in k:
            continue
        wpath = os.path.join(core.WORK, "%s.%s.w.jsonl" % (pid, k["id"]))
        os.makedirs(core.WORK, exist_ok=True)
        with open(wpath, "w") as fh:
            fh.write(json.dumps(k["witness"]) + "\n")
        t2 = core.Tally(pid, [], spec.get("only_oracles"))
        req, resp = core.pipeline("%s.%s.w" % (pid, k["id"]), [core.TGH, "replay"], stdin_path=wpath)
        t2.consume("w", req, resp)
        tally.evaluations += t2.evaluations
        if t2.violations:
            still.append(k)
        if t2.disagreements:
            tally.disagreements.append(("witness:" + k["id"], 0))
            tally.streams["witness:" + k["id"]] = (req, resp)
    violation_lines = []
    extra_fail = 0
    for g in spec["groups"]:
        try:
            req, resp = core.pipeline("%s.%s" % (pid, g), [core.TGH, g, "--tier", tier, "--seed", str(seed)])
        except core.HarnessAbort as e:
            # the real code took the whole process down on an input of this stream (abort, stack overflow, allocation
            # failure): whatever the property says about the result, there is none
            p = core.write_replay(pid, {"op": e.case.get("op"), "in": e.case.get("in"), "process_exit": e.rc,
                                        "what": "the process running the real code died on this input (abort, stack overflow or allocation failure)",
                                        "seed": seed, "tier": tier, "stream": g})
            violation_lines.append("VIOLATION property=%s replay=%s" % (pid, os.path.relpath(p, core.ROOT)))
            extra_fail += 1
            continue
        tally.consume(g, req, resp)
        if spec.get("extra") and g == spec.get("extra_group"):
            n, fails, enotes = spec["extra"](req, tier, seed)
            tally.evaluations += n
            notes.extend(enotes)
            if fails:
                extra_fail += len(fails)
                p = core.write_replay(pid, {"what": "process-level run of the real CLI", "failure": fails[0],
                                            "failing_runs": len(fails), "seed": seed, "tier": tier})
                violation_lines.append("VIOLATION property=%s replay=%s" % (pid, os.path.relpath(p, core.ROOT)))

    # 4. verdict
    if tally.driver_errors:
        s, i, e = tally.driver_errors[0]
        print("ERROR: driver could not evaluate %d request(s), first: stream=%s id=%s %s" %
              (len(tally.driver_errors), s, i, e))
        return 2
    if violation_lines:
        pass
    elif tally.violations:
        s, i, bad = tally.violations[0]
        rq, rs = tally.case(s, i)
        p = core.write_replay(pid, {"op": rq["op"], "in": rq["in"], "impl": rq["impl"], "meta": rq.get("meta"),
                                    "failed_oracles": bad, "response": rs, "seed": seed, "tier": tier,
                                    "stream": s, "total_failing_cases": len(tally.violations)})
        violation_lines.append("VIOLATION property=%s replay=%s" % (pid, os.path.relpath(p, core.ROOT)))
    elif tally.disagreements or proof_broken:
        # the tie (or a proof obligation) is broken: search wider for a failing input
        found = None
        for extra in range(1, 3 if tier == "quick" else 5):
            t3 = core.Tally(pid, known, spec.get("only_oracles"), spec.get("excluded_classes"), spec.get("oracle_known"))
            for g in spec["groups"]:
                req, resp = core.pipeline("%s.%s.s%d" % (pid, g, extra),
                                          [core.TGH, g, "--tier", tier,
                                           "--seed", str(seed * 1000 + extra)])
                t3.consume(g, req, resp)
            tally.evaluations += t3.evaluations
            if t3.violations:
                s, i, bad = t3.violations[0]
                rq, rs = t3.case(s, i)
                found = core.write_replay(pid, {"op": rq["op"], "in": rq["in"], "impl": rq["impl"],
                                                "failed_oracles": bad, "response": rs, "found_by": "widened search"})
                break
        if found:
            violation_lines.append("VIOLATION property=%s replay=%s" % (pid, os.path.relpath(found, core.ROOT)))
        else:
            what = {}
            if tally.disagreements:
                s, i = tally.disagreements[0]
                rq, rs = tally.case(s, i)
                what["correspondence"] = {"op": rq["op"] if rq else None, "in": rq["in"] if rq else None,
                                          "impl": rq["impl"] if rq else None, "response": rs,
                                          "disagreeing_cases": len(tally.disagreements)}
            if proof_broken:
                what["proof"] = {"module": spec["theorems"], "lake_ok": ok_thm,
                                 "not_discharged": [n for n, ax, ok in audit_res if not ok],
                                 "forbidden_tokens": forbidden, "lake_output_tail": out_thm[-1500:] if not ok_thm else ""}
            p = core.write_replay(pid, what)
            violation_lines.append("VIOLATION property=%s replay=%s no-failing-input-found" %
                                   (pid, os.path.relpath(p, core.ROOT)))

    # findings identified by an input class only (project-level): still failing iff a generated case of the class failed
    for k in known:
        if k.get("status", "open") == "open" and "witness" not in k and tally.known_hits.get(k["class"], 0) > 0:
            still.append(k)
    for k in still:
        print("KNOWN-FINDING: property=%s %s %s" % (pid, k["id"], k["description"]))
    unlisted_known = [k["id"] for k in known if k.get("status", "open") == "open" and k not in still and "witness" in k]

    # 5. evidence
    cov = {
        "obligations": obligations, "discharged": discharged, "checker_cmd": checker_cmd or "lake build (failed)",
        "trusted_base": spec["trusted_base"],
        "theorems": [{"name": n, "axioms": ax, "ok": ok} for n, ax, ok in audit_res],
        "evaluations": tally.evaluations, "distinct_nontrivial": len(tally.nontrivial),
        "rule": spec["rule"], "samples": tally.samples[:6],
        "exhaustive": spec.get("exhaustive", {}).get(tier, False),
        "exhaustive_scope": spec.get("exhaustive_scope", {}).get(tier, ""),
        "cases_by_op": tally.by_op, "class_histogram": tally.class_hist,
        "disagreements_checked": len(tally.disagreements),
        "implementation_oracle_failures_outside_known_classes": len(tally.violations),
        "known_finding_hits": tally.known_hits,
        "excluded_out_of_domain_hits": tally.excluded_hits,
        "known_findings_replayed": [{"id": k["id"], "still_fails": k in still} for k in known if "witness" in k],
        "known_findings_no_longer_failing": unlisted_known,
        "fixed_entries": fixed,
        "model_oracle_failures": tally.model_oracle_fail,
        "partial_theorems": spec.get("partial", []),
        "notes": notes,
    }
    core.write_evidence(pid, tier, seed, "proof", cov, spec["assumptions"], time.time() - t0, len(violation_lines))
    for v in violation_lines:
        print(v)
    log("%s %s: %d cases, %d distinct non-trivial, %d/%d obligations, %d disagreements, %d violations, %.1fs" %
        (pid, tier, tally.evaluations, len(tally.nontrivial), discharged, obligations, len(tally.disagreements),
         len(tally.violations), time.time() - t0))
    return 1 if violation_lines else 0
