"""Process-level properties: the real CLI binary / build-script path driven in sandbox directories,
observations compared with the Lean run model (driver) and with implementation-side oracles."""
import json
import os
import time

from . import core
from .core import log


class Case:
    """one explored case: either a driver request (`request`) or a pure implementation-vs-oracle result"""

    def __init__(self, desc, oracle=None, classes=None, request=None, nontrivial=True, detail=None, agree=True):
        self.agree = agree
        self.desc = desc
        self.oracle = oracle or {}
        self.classes = classes or []
        self.request = request
        self.nontrivial = nontrivial
        self.detail = detail or {}


def run(spec, pid, tier, seed, replay=None):
    t0 = time.time()
    known, fixed = core.load_known(pid)
    known_classes = {k["class"] for k in known if k.get("status", "open") == "open"}
    notes = []
    try:
        core.build_harness()
        core.build_cli()
        tables = core.extract_tables()
        core.regen_tables(tables)
    except core.BuildFailed as e:
        return core.tie_broken(pid, "harness build", e)
    except Exception as e:
        return core.tie_broken(pid, "table extraction", e)
    ok_thm, out_thm = core.lake_build([spec["theorems"]])
    ok_drv, out_drv = core.lake_build(["tgdriver"])
    if not ok_drv:
        print("ERROR: model/driver does not build:\n" + out_drv[-3000:])
        return 2
    audit_res, checker_cmd = ([], "")
    if ok_thm:
        audit_res, checker_cmd = core.audit(pid, spec["theorems"])
    forbidden = core.forbidden_scan()
    obligations = len(audit_res)
    discharged = sum(1 for _, _, ok in audit_res if ok)
    proof_broken = (not ok_thm) or obligations == 0 or discharged != obligations or bool(forbidden)
    if tier == "thorough" and ok_thm:
        rc, out = core.sh(["lake", "env", "leanchecker", spec["theorems"]], cwd=core.LEAN, timeout=3600)
        notes.append("leanchecker %s rc=%d" % (spec["theorems"], rc))
        if rc != 0:
            proof_broken = True
        checker_cmd += " && lake env leanchecker " + spec["theorems"]

    ctx = {"tier": tier, "seed": seed, "tables": tables, "replay": None}
    if replay:
        ctx["replay"] = json.load(open(replay))
    cases = [] if (replay and ctx["replay"].get("op")) else list(spec["cases"](ctx))

    # driver part
    reqs = [c.request for c in cases if c.request is not None]
    responses = {}
    if reqs:
        for i, r in enumerate(reqs):
            r["id"] = i
        req_path, resp_path = core.pipeline_lines(pid + ".proc", reqs)
        for line in open(resp_path):
            r = json.loads(line)
            responses[r["id"]] = r

    violations, disagreements, known_hits, samples = [], [], {}, []
    nontrivial = set()
    class_hist = {}
    driver_errors = []
    for c in cases:
        oracle = dict(c.oracle)
        classes = list(c.classes)
        agree = c.agree
        resp = None
        if c.request is not None:
            resp = responses.get(c.request["id"])
            if resp is None or "error" in resp:
                driver_errors.append((c.desc, resp))
                continue
            agree = agree and resp.get("agree", True)
            for k, v in (resp.get("oracle_impl") or {}).items():
                oracle["model:" + k] = v
            classes += resp.get("class", [])
        for cl in classes:
            class_hist[cl] = class_hist.get(cl, 0) + 1
        if c.nontrivial:
            nontrivial.add(core.hashlib.sha1(json.dumps(c.desc, sort_keys=True, default=str).encode()).hexdigest())
        bad = [k for k, v in oracle.items() if v is False]
        rec = {"case": c.desc, "oracle": oracle, "classes": classes, "detail": c.detail,
               "model": (resp or {}).get("model"), "impl": (c.request or {}).get("impl")}
        if not agree:
            disagreements.append(rec)
        if bad:
            hit = [cl for cl in classes if cl in known_classes]
            if hit:
                for cl in hit:
                    known_hits[cl] = known_hits.get(cl, 0) + 1
            else:
                rec["failed_oracles"] = bad
                violations.append(rec)
        if len(samples) < 5:
            samples.append(core.trim({"case": c.desc, "oracle": oracle, "classes": classes}, 900))

    # in-process harness groups of this property (function-level ops through the same driver)
    tally = core.Tally(pid, known)
    if not replay:
        for g in spec.get("groups", []):
            rq, rs = core.pipeline("%s.%s" % (pid, g), [core.TGH, g, "--tier", tier, "--seed", str(seed)])
            tally.consume(g, rq, rs)
    elif ctx["replay"].get("op"):
        rq, rs = core.pipeline(pid + ".replay", [core.TGH, "replay"], stdin_path=replay)
        tally.consume("replay", rq, rs)
    for st, i, e in tally.driver_errors:
        driver_errors.append((st, e))
    for st, i in tally.disagreements:
        rq, rs = tally.case(st, i)
        disagreements.append({"case": {"op": rq["op"], "in": rq["in"]}, "impl": rq["impl"], "model": rs.get("model"), "oracle": rs.get("oracle_impl")})
    for st, i, bad in tally.violations:
        rq, rs = tally.case(st, i)
        violations.append({"case": {"op": rq["op"], "in": rq["in"]}, "op": rq["op"], "in": rq["in"], "impl": rq["impl"],
                           "model": rs.get("model"), "failed_oracles": bad})
    for cl, n in tally.known_hits.items():
        known_hits[cl] = known_hits.get(cl, 0) + n
    for cl, n in tally.class_hist.items():
        class_hist[cl] = class_hist.get(cl, 0) + n
    nontrivial |= tally.nontrivial
    samples += tally.samples[:3]

    if replay:
        bad = bool(violations or disagreements or known_hits)
        for v in (violations + disagreements)[:3]:
            print(json.dumps(core.trim(v, 3000), ensure_ascii=False))
        print("REPLAY %s: %s" % (replay, "still failing" if bad else "passes"))
        return 1 if bad else 0

    if driver_errors:
        print("ERROR: driver could not evaluate %d request(s), first: %s" % (len(driver_errors), driver_errors[0]))
        return 2

    violation_lines = []
    if violations:
        v0 = violations[0]
        p = core.write_replay(pid, {"replay_case": v0["case"], "op": v0.get("op"), "in": v0.get("in"), "failed_oracles": v0["failed_oracles"],
                                    "record": core.trim(violations[0], 20000), "seed": seed, "tier": tier,
                                    "total_failing_cases": len(violations)})
        violation_lines.append("VIOLATION property=%s replay=%s" % (pid, os.path.relpath(p, core.ROOT)))
    elif disagreements or proof_broken:
        what = {}
        if disagreements:
            what["correspondence"] = core.trim(disagreements[0], 20000)
            what["replay_case"] = disagreements[0]["case"]
            what["disagreeing_cases"] = len(disagreements)
        if proof_broken:
            what["proof"] = {"module": spec["theorems"], "lake_ok": ok_thm,
                             "not_discharged": [n for n, ax, ok in audit_res if not ok],
                             "forbidden_tokens": forbidden, "lake_output_tail": out_thm[-1500:] if not ok_thm else ""}
        # the search for a failing input *is* the oracle evaluation above (every explored case was checked
        # against the implementation-side oracle); nothing failed there
        p = core.write_replay(pid, what)
        violation_lines.append("VIOLATION property=%s replay=%s no-failing-input-found" % (pid, os.path.relpath(p, core.ROOT)))

    # known findings: each listed witness is one of the generated cases (class hit) — report those still failing
    still = [k for k in known if k.get("status", "open") == "open" and known_hits.get(k["class"], 0) > 0]
    for k in still:
        print("KNOWN-FINDING: property=%s %s %s" % (pid, k["id"], k["description"]))

    cov = {
        "obligations": obligations, "discharged": discharged, "checker_cmd": checker_cmd or "lake build (failed)",
        "trusted_base": spec["trusted_base"],
        "theorems": [{"name": n, "axioms": ax, "ok": ok} for n, ax, ok in audit_res],
        "evaluations": len(cases) + tally.evaluations, "distinct_nontrivial": len(nontrivial),
        "cases_by_op": tally.by_op,
        "rule": spec["rule"], "samples": samples,
        "exhaustive": spec.get("exhaustive", {}).get(tier, False),
        "exhaustive_scope": spec.get("exhaustive_scope", {}).get(tier, ""),
        "class_histogram": class_hist,
        "disagreements_checked": len(disagreements),
        "traces_validated_against_impl": len(reqs),
        "implementation_oracle_failures_outside_known_classes": len(violations),
        "known_finding_hits": known_hits,
        "known_findings_still_failing": [k["id"] for k in still],
        "fixed_entries": fixed,
        "partial_theorems": spec.get("partial", []),
        "extracted_tables": {"hash_structs": tables["hash_structs"], "generated_literals": tables["generated_literals"]},
        "notes": notes,
    }
    core.write_evidence(pid, tier, seed, "proof", cov, spec["assumptions"], time.time() - t0, len(violation_lines))
    for v in violation_lines:
        print(v)
    log("%s %s: %d cases, %d distinct non-trivial, %d/%d obligations, %d disagreements, %d violations, %.1fs" %
        (pid, tier, len(cases), len(nontrivial), discharged, obligations, len(disagreements), len(violations),
         time.time() - t0))
    return 1 if violation_lines else 0
