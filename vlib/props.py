"""Per-property specifications for the function-level checks."""

LEAN_TB = "Lean 4.33.0 kernel (axioms allowed: propext, Classical.choice, Quot.sound; witnesses by `decide +kernel`)"
HARNESS_TB = "correspondence check: harness/ (Rust, in-process calls into /repo's public API) | tgdriver (compiled Lean model), compared per case"

SPECS = {
    "C20": dict(
        groups=["graph"],
        theorems="Typegen.Theorems.C20",
        trusted_base=[LEAN_TB, HARNESS_TB,
                      "modelled, not verified: HashSet/HashMap iterate in some fixed permutation (the order is observed by the harness and handed to the model)",
                      "run-time oracle uses an executable bounded closure for reachability; the theorems use the inductive relation `Reaches`"],
        assumptions=["std HashSet iteration order is stable while the set is unmodified",
                     "DependencyResolver's internal HashMap order is unobservable: compared on ok/err + validity of the order"],
        rule="all digraphs on <=3 (quick) / <=4 (thorough) labelled nodes incl. self-loops x all non-empty request subsets, "
             "rebuilt several times for fresh hash orders, plus random graphs up to 12 nodes (multi-edges, undefined deps); "
             "non-trivial = at least one edge and two names; distinct = by hash of the abstract graph+request",
        exhaustive={"quick": True, "thorough": True},
        exhaustive_scope={"quick": "digraphs on 1..3 labelled nodes x request subsets", "thorough": "digraphs on 1..4 labelled nodes (65 536) x 15 request subsets"},
    ),
}
