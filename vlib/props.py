"""Per-property specifications for the function-level checks."""

LEAN_TB = "Lean 4.33.0 kernel (axioms allowed: propext, Classical.choice, Quot.sound; witnesses by `decide +kernel`)"
HARNESS_TB = "correspondence check: harness/ (Rust, in-process calls into /repo's public API) | tgdriver (compiled Lean model), compared per case"

def _c15_extra(req, tier, seed):
    from . import c15cli
    return c15cli.run(req, tier, seed)


def _regen():
    from . import core
    core.regen_tables(core.extract_tables())


SPECS = {
    "C20": dict(
        groups=["graph"],
        theorems="Typegen.Theorems.C20",
        trusted_base=[LEAN_TB, HARNESS_TB,
                      "modelled, not verified: HashSet/HashMap iterate in some fixed permutation (the order is observed by the harness and handed to the model)",
                      "run-time oracle uses an executable bounded closure for reachability; the theorems use the inductive relation `Reaches`"],
        assumptions=["std HashSet iteration order is stable while the set is unmodified",
                     "DependencyResolver's internal HashMap order is unobservable: compared on ok/err + validity of the order"],
        rule="all digraphs on <=3 (quick) / <=4 (thorough) labelled nodes incl. self-loops x all non-empty request subsets,  [also: names as projects have them - equal up to letter case, numbered with digit runs of any length, prefixes of one another, pairs colliding under six well-known 32-bit string hashes; a quarter of the DFS cases build the object through Default] "
             "rebuilt several times for fresh hash orders, plus random graphs up to 12 nodes (multi-edges, undefined deps); "
             "non-trivial = at least one edge and two names; distinct = by hash of the abstract graph+request",
        exhaustive={"quick": True, "thorough": True},
        exhaustive_scope={"quick": "digraphs on 1..3 labelled nodes x request subsets", "thorough": "digraphs on 1..4 labelled nodes (65 536) x 15 request subsets"},
    ),
    "C05": dict(
        groups=["types", "project"],
        only_oracles=["denotes", "nopanic", "c12_payload_types"],
        excluded_classes=['unsupportedType', 'undefinedNamedType', 'undocumentedItemShape', 'duplicateTypeNames', 'duplicateCommandNames', 'K18a_mappedAndDefined', 'K01a_reservedOrIllegalFnName'],
        theorems="Typegen.Theorems.C05",
        trusted_base=[LEAN_TB, HARNESS_TB,
                      "modelled, not verified: syn parses the rendered source into the tree the IR printed; proc-macro2/quote unused here",
                      "spec: T.denote (README table) and T.printSpec are the definition of 'denotes the JSON shape'; T.parseTsTy (recogniser) is the reading of TypeScript type syntax used by the oracles; it is proved exact on the printer's image (C05_parse_print) and exercised on every real text"],
        assumptions=["strings are List Char; only ASCII space is trimmed (type_to_string emits no other whitespace)",
                     "zod-mode param/field sites are compared for model=implementation only; their shape is decided under C10"],
        rule="all type expressions of depth <=2 (quick) / <=3 (thorough) over {String,i32,bool,&str,(),User,Mode} x the README constructors "
             "(binary constructors over the first 12/40 sub-terms), at all five sites in ts mode and rotating sites in zod mode; all 17 primitive names at depth <=1; "
             "random types to depth 6 with/without type mappings; string mutations for parse_type_structure; non-trivial = at least one constructor; "
             "distinct = hash of (type, site, mode, mappings)",
        exhaustive={"quick": True, "thorough": True},
        exhaustive_scope={"quick": "depth<=2 over 7 leaf classes (binary constructors capped at 12 sub-terms)", "thorough": "depth<=3 (binary constructors capped at 40 sub-terms)"},
        partial=["C05_partial: full statement minus CommaSafe/precSafe; excluded classes are known findings K05a, K05bcd; return/event sites additionally K05g (add_types_prefix)",
                 "parse ∘ print = id is now proved (C05_parse_print, all canonical types); C05_text_parses_to_denotation / C05_full_chain_partial give parse(render) = denote at text level"],
    ),
    "C18": dict(
        groups=["mappings", "project"],
        only_oracles=["mapping_is_substitution", "mapped_name_absent", "unmapped_identical", "nopanic", "c18_mapped_name_absent"],
        excluded_classes=['unsupportedType', 'undefinedNamedType', 'undocumentedItemShape', 'duplicateTypeNames', 'duplicateCommandNames', 'K18a_mappedAndDefined', 'K01a_reservedOrIllegalFnName'],
        theorems="Typegen.Theorems.C18",
        trusted_base=[LEAN_TB, HARNESS_TB,
                      "oracle `mapping_is_substitution` compares the real mapped rendering with the *model's* unmapped rendering of the substituted type (modulo `.coerce`, since a mapped number is z.number()); `unmapped_identical` compares two real renderings"],
        assumptions=["targets in {string, number, boolean}; mapped names are not also project-defined types (that case is decided at project level, finding K18a)",
                     "positions excluded by the C05/C02 findings (comma-unsafe, Option directly under an array, add_types_prefix shapes) are excluded from `mapping_is_substitution` too"],
        rule="6 names (plain, generic `DateTime<Utc>`, and an unmapped control) at 17 constructor positions x 5 sites x 2 modes x 3 mapping tables (quick: every second), "
             "plus random types over mapped/unmapped names to depth 4; non-trivial = at least one constructor; distinct = (type, site, mode, table)",
        exhaustive={"quick": False, "thorough": True},
        exhaustive_scope={"thorough": "17 positions x 5 sites x 2 modes x 3 tables x 6 names"},
    ),
    "C04": dict(pre_lake=_regen, 
        groups=["params", "project"],
        only_oracles=["tauri_key", "nopanic", "c04_key_set", "c04_declared_keys"],
        # which key the object carries does not depend on whether the parameter's *type* is one the tool documents: only
        # these classes excuse a wrong key set (the text-level reader of `c04_declared_keys` cannot split the members of a
        # declaration whose types are the unbalanced fragments of K05bcd: those cases are out of its reach, not findings)
        oracle_known={"c04_key_set": ["K04d_foreignChannelPath", "duplicateCommandNames", "K01a_reservedOrIllegalFnName", "undocumentedItemShape"],
                      "c04_declared_keys": ["K04d_foreignChannelPath", "duplicateCommandNames", "K01a_reservedOrIllegalFnName", "undocumentedItemShape", "K05_commaUnsafe", "K01c_nonIdentifierKey"]},
        excluded_classes=['unsupportedType', 'undefinedNamedType', 'undocumentedItemShape', 'duplicateTypeNames', 'duplicateCommandNames', 'K18a_mappedAndDefined', 'K01a_reservedOrIllegalFnName', 'K05_commaUnsafe', 'K01c_nonIdentifierKey'],
        theorems="Typegen.Theorems.C04",
        trusted_base=[LEAN_TB, HARNESS_TB,
                      "spec: H.heckLowerCamel transcribes heck 0.5 to_lower_camel_case on [a-z0-9_]* (compared per case with the real heck crate); Tauri's macro crate is not in the registry",
                      "modelled: serde-rename-rule 0.2.3 apply_to_field (vendored); char::to_ascii_* on ASCII"],
        assumptions=["parameter names are ASCII snake_case identifiers for the key-rule theorem; other names are compared model=implementation only",
                     "which parameters are injected / channels (the filtering half of C04) is decided by the project-level op, see DESIGN.md"],
        rule="39 table identifiers (snake incl. digits, leading/trailing/consecutive underscores, odd and non-ASCII names) x 9 default_parameter_case values x "
             "3 command-level rules x 2 rename options; function/type/event names; random snake identifiers (length <=12); "
             "non-trivial = name of >=2 chars; distinct = hash of the input tuple",
        exhaustive={"quick": False, "thorough": False},
    ),
    "C06": dict(
        groups=["fields", "project"],
        only_oracles=["serde_name", "present", "nopanic", "c06_wire_names"],
        # the text-level reader of `c06_wire_names` cannot take apart declarations whose member types are the unbalanced
        # fragments of K05, two declarations of one name are not told apart, and a literal with a quote or backslash in it (K01e: emitted
        # unescaped) is not read back as the name it stands for: out of its reach, not findings
        excluded_classes=["K05_commaUnsafe", "K02a_prefixUnsafe", "K02e_nameClash", "duplicateTypeNames", "K01e_quoteInLiteral"],
        theorems="Typegen.Theorems.C06",
        trusted_base=[LEAN_TB, HARNESS_TB,
                      "spec: N.serdeName / N.applyVariant transcribe serde_derive internals/case.rs (apply_to_field / apply_to_variant), is_uppercase on ASCII",
                      "modelled, not verified: proc_macro2's Display of the attribute token stream (the harness hands the real token text to the model on every case); syn"],
        assumptions=["identifiers ASCII; duplicate serde items (rejected by serde_derive) are outside the domain",
                     "'unattributed items keep their Rust name' is read under the default default_field_case (snake_case = identity)"],
        rule="identifier tables (30 snake fields, 16 variants, 9 odd names) x {no rule, 8 rules, invalid rule} x 5 rename options x {field, variant}; "
             "attribute items {rename(4 values), skip, skip_serializing_if, default, default=path (2), alias (2), skip_deserializing, skip_serializing, with} "
             "singly and in ordered pairs, in one or two attributes, under 11 container attribute sets (quick: pairs sampled 1 in 6); "
             "the project stream of C03 (random projects, both modes; enums with wire names differing in letter case only and rename values "
             "with commas) read back from the emitted types.ts; "
             "non-trivial = at least one attribute item or name >=2 chars; distinct = hash of the input",
        exhaustive={"quick": False, "thorough": False},
        partial=["C06_variant_names_partial: variants only for {PascalCase, camelCase, UPPERCASE} on UpperCamel identifiers (rest = K06a)",
                 "attribute scanner: skip decision proved for all token lists (C06_skip_tokens); the rename scanner is tied by correspondence + witnesses (K06b-d)"],
    ),
    "C11": dict(
        groups=["valid"],
        theorems="Typegen.Theorems.C11",
        trusted_base=[LEAN_TB, HARNESS_TB,
                      "f64: text -> f64 -> Display goes through Rust's std; the model prints the canonical decimal of the literal (VP.canonDec), compared per case with the real Display; literals with > 15 significant digits or non-finite values are outside the comparison",
                      "spec lexer P.lexJsString: JS double-quoted string literal with escapes \\ \" \n \r \t",
                      "modelled, not verified: proc_macro2 Display of the attribute tokens (real text handed to the model per case); syn"],
        assumptions=["messages are double-quoted Rust string literals", "one field per case; 'never attached to a different field' is covered at project level"],
        rule="all subsets of (min,max,message) x 3 key orders x 10 field types for length and range (quick: 1 in 3), 18 numeric literal shapes,  [field types also Option<Option<T>>, Vec<Option<String>>, Option<Vec<i32>>; bounds at and beyond 2^64; oracle schema_calls on the rendered schema] "
             "28 fixed messages (quotes, backslashes, parentheses, keywords, multi-byte) in two item contexts, combined/multiple attributes, "
             "random messages over a Unicode alphabet with multi-byte characters at every offset; non-trivial = at least one validator item; distinct = hash of input",
        exhaustive={"quick": False, "thorough": False},
        partial=["rendering stage proved for all validator values (C11_*_chain, escape_exact); scanner stage proved for the canonical `length(min, max, message)` and `range(min, max, message)` texts over all numerals and all messages without quote / backslash / closing parenthesis (C11_scan_length_canonical, C11_scan_range_canonical), both stages composed on that fragment (C11_length_end_to_end, C11_range_end_to_end), other item shapes on instances; exclusion classes K11b-K11g are known findings"],
    ),
    "C01": dict(groups=["project"], only_oracles=["c01_parses_types", "c01_parses_commands", "c01_parses_events", "c01_parses_index"],
        excluded_classes=["undocumentedItemShape", "emptyEnum", "duplicateCommandNames", "duplicateTypeNames", "K02e_nameClash", "K12c_listenerNameClash"],
        theorems="Typegen.Theorems.C01",
        trusted_base=[LEAN_TB, HARNESS_TB,
                      "the recogniser Sx.parsesAsModule (tokeniser + grammar of the emitted subset, documented next to the TypeScript productions it instantiates) is the *definition* of 'parses as a TypeScript module' here: no TypeScript compiler is available offline; it is a sub-grammar (accept => valid) and function bodies are accepted as balanced token sequences",
                      "project-level tie as for C03: all four file texts equal the model's modulo whitespace on every case"],
        assumptions=["identifiers are ASCII; the fixed template text is trusted to be TypeScript once every hole is of its category (validated by running the recogniser on every real file)"],
        rule="as C03 (random projects, safe + adversarial streams, both modes); the adversarial stream adds reserved-word / raw-identifier command names, kebab-case containers, renames with `-`, spaces and quotes; every real file is tokenised and parsed; non-trivial = project with >=1 command; distinct = hash of (IR, configuration)",
        exhaustive={"quick": False, "thorough": False},
        partial=["hole well-formedness proved (string literals for all Unicode, function/type/listener identifier characters); skeleton validity rests on the recogniser, run per case"]),
    "C10": dict(groups=["shapes", "project"],
        only_oracles=["c10_param_shape", "c10_field_shape", "c10_iface_shape", "c10_shape_mod_known", "text_is_tsShape", "text_is_zodShape",
                      "c10_names", "c10_keys", "c10_shapes", "c10_shapes_mod_known", "c10_enum_literals", "nopanic"],
        # these oracles already undo the two known deviations (z.set, Result union): only the shared-parser findings may explain a failure
        oracle_known={k: ["K05_commaUnsafe", "K05a_precUnsafe", "unsupported", "unsupportedType", "undocumentedItemShape", "duplicateTypeNames",
                          "K18a_mappedAndDefined", "K01c_nonIdentifierKey", "K01e_quoteInLiteral", "K02e_nameClash", "emptyEnum", "namesNotOk"]
                      for k in ["c10_shape_mod_known", "c10_shapes_mod_known", "c10_names", "c10_keys", "c10_enum_literals", "c10_iface_shape",
                                "text_is_tsShape", "text_is_zodShape"]},
        excluded_classes=["unsupported", "unsupportedType", "undocumentedItemShape", "duplicateTypeNames", "duplicateCommandNames", "K18a_mappedAndDefined",
                          "K01c_nonIdentifierKey", "K01e_quoteInLiteral", "K02e_nameClash", "emptyEnum", "namesNotOk"],
        theorems="Typegen.Theorems.C10",
        trusted_base=[LEAN_TB, HARNESS_TB,
                      "spec: Z.Shape is the common vocabulary of 'structure'; T.parseTsTy + Z.shapeOfTs read a TypeScript type, Z.parseZod + Z.shapeOfZ read a schema expression (refinements `.min/.max/.email/.url` and `.coerce` are not structure); both readers are run on every real text (oracles text_is_tsShape / text_is_zodShape tie the texts to the shapes the theorems speak about)",
                      "acceptance semantics Acc (JSON values against shapes; no JSON value is a JavaScript Set) is the definition of 'rejected for structural reasons'",
                      "project-level tie as for C03, plus: the same analysis is generated in the other output mode too and both types.ts texts equal the model's"],
        assumptions=["`Option` = omittable: `T | null`, `?:`, `.optional()` and `.nullable()` are one shape, as the statement says (whether null or undefined is sent is not distinguished)",
                     "record keys are JSON strings: the key shape is compared, not enforced by Acc",
                     "types hit by the shared-parser findings of C05 (first-comma splitting, Option directly under an array) produce malformed text in both modes; they are listed under C10 as the same findings (K10c, K10d)"],
        rule="function level: all type expressions of depth <=2 (quick) / <=3 (thorough) as in C05, all 17 primitive names, random types to depth 6, random types over mapped names with two mapping tables; each rendered at the parameter and the field site in both modes by the real code (5 texts) and read into shapes; "
             "project level: as C03, every project generated in both modes, declarations compared item by item (names, keys, shape per key, enum literals); non-trivial = at least one constructor / one command; distinct = hash of the input",
        exhaustive={"quick": True, "thorough": True},
        exhaustive_scope={"quick": "depth<=2 over 7 leaf classes (binary constructors capped at 12 sub-terms)", "thorough": "depth<=3 (binary constructors capped at 40 sub-terms)"},
        partial=["C10_shapes_agree_partial / C10_partial: full statement minus HashSet/BTreeSet (K10a: z.set) and Result (K10b: union with an error object); C10_never_rejected_partial covers Result, excludes sets",
                 "the schema side (Z.zodShape) is tied to render_type by the per-case oracle, not by a printer theorem; the declaration side is tied to the C05 denotation by C10_declaration_is_denotation"]),
    "C15": dict(groups=["attrfuzz", "robust"], extra=_c15_extra, abort_is_violation=True, extra_group="robust", needs_cli=True,
        only_oracles=["nopanic", "isolated", "result_ok_or_err"],
        theorems="Typegen.Theorems.C15",
        trusted_base=[LEAN_TB, HARNESS_TB,
                      "modelled, not verified (runtime): syn / proc_macro2 (parsing arbitrary text), tera (rendering), walkdir, the thread stack (recursion depth on deeply nested input), the allocator; these are exercised by the corpus and fuzz runs only",
                      "B.from? / B.to? / B.slice? / B.findB are the model of Rust's str slicing and str::find on UTF-8 (panic = none); Char.utf8Size is Lean's",
                      "op robustSrc has no model-side computation (Lean has no Rust parser): its expected outcome (no panic, Ok or Err, output independent of unparsable files) is what the theorems state about the model; the driver only evaluates these oracles on the observation"],
        assumptions=["files are valid UTF-8 (the statement's domain)", "a panic is observed as a caught unwind in-process, as exit status 101 / a signal / 'panicked at' on stderr at CLI level; aborts kill the harness process and are attributed to the case being run",
                     "the proved scanner is parse_rename (the only one with a computed offset and a loop) plus the guarded fixed-offset slices of type_resolver.rs; the other find-based scanners (validator_parser.rs) are tied by the attrfuzz correspondence with the C11 models and by the corpus runs"],
        rule="attrfuzz: serde / validate attribute values built from scanner keywords, runs of ASCII and multi-byte white space (U+0085, U+00A0, U+2003, U+3000), quotes, backslashes, parentheses, multi-byte letters, through the real field/variant/validator parsers, compared with the Lean scanner models (6 000 quick / 60 000 thorough); "
             "robust: (1) grammar-generated files of exotic items (generic/lifetime/const parameters, raw and non-ASCII identifiers, exotic and malformed types, macros, nested modules, impl methods, tuple/unit structs, unions, attribute soup) whose defined types are referenced by a command, "
             "(2) text that is not Rust (18 shapes + soup) in .rs and other files at several directory depths beside good files, "
             "(3) every .rs file of /repo and of the cargo registry sources (quick: all of /repo + every 37th registry file, rotating with the seed; thorough: all ~11 000) as is, 'commandified' (every top-level fn a command, every type serde-derived), truncated at a random offset and with random deletions/insertions; "
             "each tree is analysed and generated in both modes inside catch_unwind beside a fixed good file, and again without the files that do not parse (isolation = identical output); "
             "(4) the real CLI binary on a sample of the trees (60 quick / 400 thorough, both modes): exit status in {0,1}, no panic message; non-trivial = tree with >=2 files; distinct = hash of the input",
        exhaustive={"quick": False, "thorough": True},
        exhaustive_scope={"thorough": "every .rs file of /repo and of the cargo registry (as is + 3 transformations)"},
        partial=["C15 is a statement about the runtime (syn, tera, the stack): proved are the index arithmetic of parse_rename for all token strings (refinement of the character-level model, no slice panics), the guarded fixed-offset slices, and isolation of unparsable files in the analysis model; everything else is corpus / fuzz evidence, not proof"]),
    "C03": dict(pre_lake=_regen, groups=["project"], only_oracles=["c03_wrappers"], excluded_classes=['unsupportedType', 'undefinedNamedType', 'undocumentedItemShape', 'duplicateTypeNames', 'duplicateCommandNames', 'K18a_mappedAndDefined', 'K01a_reservedOrIllegalFnName'], theorems="Typegen.Theorems.C03",
        trusted_base=[LEAN_TB, HARNESS_TB,
                      "project-level tie: the harness renders a project IR to Rust source files, runs the real CommandAnalyzer + generators on them and hands the IR (annotated with the token text proc_macro2 prints for every attribute and the generic tree of every type) to the Lean model; compared: the whole analysis (commands, parameters, channels, events, discovered types, dependency sets) and the text of all four generated files modulo whitespace and the header comment",
                      "modelled, not verified: syn (the IR is what syn hands to the analysers), walkdir, tera (templates transcribed by hand, validated by the text comparison), proc_macro2 Display"],
        assumptions=["spec of 'command': top-level fn of a selected file with an attribute path tauri::command or command"],
        rule="random projects of 1..5 files in nested directories (120 quick / 1500 thorough, each in both modes, with 5 configuration variants): commands with value / injected (12 spellings) / channel (3 spellings) parameters, serde structs / enums with attributes, validators, events at every documented placement and receiver form, helper functions, impl blocks and inline modules with command-looking functions, decoys under target/ and .git/, unparsable and empty files; a *safe* stream (2/3) stays inside the property's input domain, an *adversarial* stream (1/3) aims at the known exclusion classes; non-trivial = project with at least one command; distinct = hash of (IR, configuration)", exhaustive={"quick": False, "thorough": False},
        partial=["C03_commands_exactly_statement: the discovered commands are exactly the statement's, for every project whose absolute path has no target/.git component (C03_filter_is_statement); K03a is exactly the failure of that hypothesis"]),
    "C07": dict(pre_lake=_regen, groups=["project"], only_oracles=["c07_declared_exactly_reachable", "c07_verbose_same_analysis"], excluded_classes=['unsupportedType', 'undefinedNamedType', 'undocumentedItemShape', 'duplicateTypeNames', 'duplicateCommandNames', 'K18a_mappedAndDefined', 'K01a_reservedOrIllegalFnName'], theorems="Typegen.Theorems.C07",
        trusted_base=[LEAN_TB, HARNESS_TB,
                      "project-level tie: the harness renders a project IR to Rust source files, runs the real CommandAnalyzer + generators on them and hands the IR (annotated with the token text proc_macro2 prints for every attribute and the generic tree of every type) to the Lean model; compared: the whole analysis (commands, parameters, channels, events, discovered types, dependency sets) and the text of all four generated files modulo whitespace and the header comment",
                      "modelled, not verified: syn (the IR is what syn hands to the analysers), walkdir, tera (templates transcribed by hand, validated by the text comparison), proc_macro2 Display"],
        assumptions=["reachability spec: identifiers of the type trees (error arm of Result excluded), closed under field types of token-aware serde-derived named-field / unit structs and enums"],
        rule="random projects of 1..5 files in nested directories (120 quick / 1500 thorough, each in both modes, with 5 configuration variants): commands with value / injected (12 spellings) / channel (3 spellings) parameters, serde structs / enums with attributes, validators, events at every documented placement and receiver form, helper functions, impl blocks and inline modules with command-looking functions, decoys under target/ and .git/, unparsable and empty files; a *safe* stream (2/3) stays inside the property's input domain, an *adversarial* stream (1/3) aims at the known exclusion classes; non-trivial = project with at least one command; distinct = hash of (IR, configuration)", exhaustive={"quick": False, "thorough": False},
        partial=["C07_declared_iff: declared = reachable ∩ discovered serde types, both halves proved over the generation model (worklist closure complete with the fuel used); the *analysis'* lazy discovery is proved to be a fixed point too (C07_discovery_closed: every harvested name with an extractable definition is discovered); what remains oracle-only is that harvesting a type string yields its identifiers (proved for well-formed comma-safe strings, L.H1; K07b is its failure class) and the substring derive test (K07c)"]),
    "C09": dict(groups=["project"], only_oracles=["c09_defined_before_use"], excluded_classes=['unsupportedType', 'undefinedNamedType', 'duplicateTypeNames', 'duplicateCommandNames', 'K18a_mappedAndDefined', 'K01a_reservedOrIllegalFnName'], theorems="Typegen.Theorems.C09",
        trusted_base=[LEAN_TB, HARNESS_TB,
                      "project-level tie: the harness renders a project IR to Rust source files, runs the real CommandAnalyzer + generators on them and hands the IR (annotated with the token text proc_macro2 prints for every attribute and the generic tree of every type) to the Lean model; compared: the whole analysis (commands, parameters, channels, events, discovered types, dependency sets) and the text of all four generated files modulo whitespace and the header comment",
                      "modelled, not verified: syn (the IR is what syn hands to the analysers), walkdir, tera (templates transcribed by hand, validated by the text comparison), proc_macro2 Display"],
        assumptions=["generated type graphs are acyclic (types only refer to earlier types); 'every internal iteration order' is discharged by C13 (sorted iteration), so one process per case suffices"],
        rule="random projects of 1..5 files in nested directories (120 quick / 1500 thorough, each in both modes, with 5 configuration variants): commands with value / injected (12 spellings) / channel (3 spellings) parameters, serde structs / enums with attributes, validators, events at every documented placement and receiver form, helper functions, impl blocks and inline modules with command-looking functions, decoys under target/ and .git/, unparsable and empty files; a *safe* stream (2/3) stays inside the property's input domain, an *adversarial* stream (1/3) aims at the known exclusion classes; non-trivial = project with at least one command; distinct = hash of (IR, configuration)", exhaustive={"quick": False, "thorough": False}),
    "C12": dict(pre_lake=_regen, groups=["project"], only_oracles=["c12_listeners", "c12_payload_types"], excluded_classes=['unsupportedType', 'undefinedNamedType', 'undocumentedItemShape', 'duplicateTypeNames', 'duplicateCommandNames', 'K18a_mappedAndDefined', 'K01a_reservedOrIllegalFnName'], theorems="Typegen.Theorems.C12",
        trusted_base=[LEAN_TB, HARNESS_TB,
                      "project-level tie: the harness renders a project IR to Rust source files, runs the real CommandAnalyzer + generators on them and hands the IR (annotated with the token text proc_macro2 prints for every attribute and the generic tree of every type) to the Lean model; compared: the whole analysis (commands, parameters, channels, events, discovered types, dependency sets) and the text of all four generated files modulo whitespace and the header comment",
                      "modelled, not verified: syn (the IR is what syn hands to the analysers), walkdir, tera (templates transcribed by hand, validated by the text comparison), proc_macro2 Display"],
        assumptions=["the documented placements / receivers are those the walker of event_parser.rs visits; payload typing is decided under C02/C05"],
        rule="random projects of 1..5 files in nested directories (120 quick / 1500 thorough, each in both modes, with 5 configuration variants): commands with value / injected (12 spellings) / channel (3 spellings) parameters, serde structs / enums with attributes, validators, events at every documented placement and receiver form, helper functions, impl blocks and inline modules with command-looking functions, decoys under target/ and .git/, unparsable and empty files; a *safe* stream (2/3) stays inside the property's input domain, an *adversarial* stream (1/3) aims at the known exclusion classes; non-trivial = project with at least one command; distinct = hash of (IR, configuration)", exhaustive={"quick": False, "thorough": False}),
    "C02": dict(groups=["project"], only_oracles=["c02_types_refs_resolve", "c02_types_closed", "c02_no_duplicate_exports", "c02_index_reexports_written"],
        excluded_classes=['unsupportedType', 'undefinedNamedType', 'undocumentedItemShape', 'duplicateTypeNames', 'duplicateCommandNames', 'K18a_mappedAndDefined', 'K01a_reservedOrIllegalFnName'], theorems="Typegen.Theorems.C02",
        trusted_base=[LEAN_TB, HARNESS_TB,
                      "project-level tie: the harness renders a project IR to Rust source files, runs the real CommandAnalyzer + generators on them and hands the IR (annotated with the token text proc_macro2 prints for every attribute and the generic tree of every type) to the Lean model; compared: the whole analysis (commands, parameters, channels, events, discovered types, dependency sets) and the text of all four generated files modulo whitespace and the header comment",
                      "modelled, not verified: syn (the IR is what syn hands to the analysers), walkdir, tera (templates transcribed by hand, validated by the text comparison), proc_macro2 Display"],
        assumptions=["hypothesis of the statement: every named type is defined as a serde struct/enum or mapped (class undefinedNamedType is outside the domain)"],
        rule="random projects of 1..5 files in nested directories (120 quick / 1500 thorough, each in both modes, with 5 configuration variants): commands with value / injected (12 spellings) / channel (3 spellings) parameters, serde structs / enums with attributes, validators, events at every documented placement and receiver form, helper functions, impl blocks and inline modules with command-looking functions, decoys under target/ and .git/, unparsable and empty files; a *safe* stream (2/3) stays inside the property's input domain, an *adversarial* stream (1/3) aims at the known exclusion classes; non-trivial = project with at least one command; distinct = hash of (IR, configuration)", exhaustive={"quick": False, "thorough": False},
        partial=["closedness proved over the generation model under the statement's hypothesis (AllDefined: every unmapped named type is a discovered serde type): C02_params/return/event/struct_refs_declared, C02_zod_*_schema_refs; the real files are checked by the oracles on every case; text-level closedness after add_types_prefix rests on the K02a exclusion"]),
}

PROC_TB = "process-level tie: the real cargo-tauri-typegen binary (built from /repo's working tree into /verif/.build) and BuildSystem::generate_at_build_time (via the harness) run in sandbox directories under /verif/.work; observations (exit status, action, files written by mtime, cache record) compared with the Lean run model through driver op `history`; C08 oracle = byte comparison with a forced generation into an empty directory"
FS_ASSUME = ["std::fs::write replaces the file completely or fails without touching it; create_dir_all / remove_file / read_dir have POSIX semantics; no concurrent writer",
             "DefaultHasher (SipHash-1-3) and serde_json of the hash structs are injective on the inputs that occur (64-bit collisions not modelled)"]


def _pspecs():
    from . import pcases
    return {
        "C13": dict(
            cases=pcases.cases_c13, theorems="Typegen.Theorems.C13",
            trusted_base=[LEAN_TB, PROC_TB, "modelled, not verified: HashMap/HashSet/WalkDir enumerate their entries in some permutation; Rust's Ord on String/PathBuf = lexicographic on code points"],
            assumptions=FS_ASSUME + ["the whole-pipeline text is compared between fresh processes (byte equality modulo the `Generated at:` line); equality with the model's single output is added by the project-level correspondence (see DESIGN.md)"],
            rule="random multi-file projects (2..6 files, nested directories, commands/structs/enums/events/channels spread over files) x both modes; each generated in N fresh processes "
                 "(quick 8, thorough 40; every process has fresh hash seeds) into fresh directories; plus --verbose, --visualize-deps (twice), layout noise + decoy items/files, item reordering, "
                 "moving items between files and merging files; non-trivial = every case (>=2 files); distinct = (project seed, mode, transformation); layouts with the same file name in several directories; white-space-only rewriting (CRLF, tabs, trailing blanks); items moved into dist / node_modules / build / .cache / vendor; commands naming many long non-ASCII types, quiet vs --verbose; a mapping table with qualified keys sharing a last segment",
            exhaustive={"quick": False, "thorough": False},
        ),
        "C14": dict(
            cases=pcases.cases_c14, theorems="Typegen.Theorems.C14",
            trusted_base=[LEAN_TB, PROC_TB],
            assumptions=FS_ASSUME + ["mtimes are those of the files inside the output directory; the build path's transient .write_test changes the directory's own mtime (observation, not a violation)"],
            rule="multi-file projects (1..6 files, both modes, >=3 type mappings) on the CLI and the build-script path: three further non-forced runs in fresh processes must leave bytes and mtime_ns of every file untouched; "
                 "histories with forced runs from every cache state (absent, matching, mismatching, lost) compared with the run model; flag x config-file force table; non-trivial = all; distinct = case description",
            exhaustive={"quick": False, "thorough": False},
        ),
        "C17": dict(
            cases=pcases.cases_c17, theorems="Typegen.Theorems.C17",
            trusted_base=[LEAN_TB, PROC_TB, "faults are injected by filesystem obstacles: a directory in place of the file to be written, a regular file in place of the output directory"],
            assumptions=FS_ASSUME + ["a failing write of the cache record itself is covered by the theorems only (after invalidate-first no static obstacle makes exactly that write fail)",
                                     "crash points are covered by the theorem C17_every_prefix; the real binary is not killed mid-run"],
            rule="for every operation of the plan that an obstacle can make fail (output path, types.ts, commands.ts, events.ts, index.ts, dependency-graph.txt/.dot with visualisation on): the fault in a first run, in a run after an output-changing edit,  [fault kinds: a directory in place of the file, /dev/full, an immutable record, a blocked write probe, a busy target (ETXTBSY), a read-only file system]  [crash points also: the edit undone before the next run; the crashed run a forced one] "
                 "and with the edit reverted before the recovery run; both paths; thorough adds double faults and a second reverted aspect; every history ends with recovery runs compared with a fresh generation; non-trivial = all; distinct = history; the same in Zod mode; an immutable cache record; `init` with a write fault; crash points (the process killed by a file-size limit of 0 / 400 / 1500 bytes inside a write, thorough also 100 / 900) followed by a plain run",
            exhaustive={"quick": True, "thorough": True},
            exhaustive_scope={"quick": "all single-write fault positions x {first run, run after edit, edit reverted} x {cli, build} x {viz off, on}", "thorough": "same + double faults"},
        ),
        "C19": dict(
            cases=pcases.cases_c19, groups=["config"], theorems="Typegen.Theorems.C19",
            trusted_base=[LEAN_TB, HARNESS_TB, PROC_TB,
                          "modelled, not verified: serde_json parses and prints JSON values faithfully (numbers are whatever serde_json::Value holds; precision beyond f64 not modelled); clap parses the flags"],
            assumptions=FS_ASSUME + ["'preserves every other key and value' is read on JSON values (serde_json without preserve_order sorts keys on write)",
                                     "effective settings are observed from outside: which project's command appears, where files land, the Generator line of types.ts, verbose output, whether an identical second invocation rewrites"],
            rule="function-level: random JSON documents (nested objects/arrays, Unicode and escaped strings, i64/u64 extremes, decimals; plugins absent / object / with typegen / non-object; non-object documents) x 6 settings values x existing / missing project path  [the document in each of the three places the tool looks in: working directory, ./src-tauri, parent directory]  [path values with backslashes, `~`, `$HOME`, `%VAR%`, `..`, blanks, URL form: stored and read back as written; every arrangement of {no file, not JSON, no typegen entry, block A, block B} over the three places the tool looks in x 3 flag sets against the discovery model] "
                 "through the real save_to_tauri_config and from_tauri_config; process-level: all 32 subsets of {-p,-o,-v,--verbose,--force} x 7 file blocks (absent, valid, valid+verbose+force, unsupported library, missing project path, partial, empty) "
                 "(quick: a third of the masks only with the 3 most informative blocks), init x {none,zod,yup,Zod} x 5 plugins values; non-trivial = all; distinct = input",
            exhaustive={"quick": False, "thorough": True},
            exhaustive_scope={"thorough": "all flag subsets x all 7 file blocks"},
        ),
        "C16": dict(
            cases=pcases.cases_c16, theorems="Typegen.Theorems.C16",
            trusted_base=[LEAN_TB, PROC_TB, "tg-extract (syn) re-reads is_generated_file's patterns, the names passed to write_typescript_file, CACHE_FILE_NAME, the dependency-graph names and the write-probe name from the source on every run; the C16 theorems are re-checked against them",
                          "that every operation targets `<output dir>/<name>` (format!/join) is modelled by construction and validated by recursive before/after snapshots of the whole sandbox"],
            assumptions=FS_ASSUME + ["OutputManager's per-run managed_files set only contains names the run itself wrote", "directories are created only along the output path"],
            rule="output directory beside / nested inside / deep below / outside the project, relative and absolute, pre-populated with 14 foreign names close to the reserved ones  [also: output directories whose own name matches the tool's patterns (`__generated__`, `generated_bindings/ts_generated`); the user's own renderings `dependency-graph.png/.svg/.json`]  [layout `symup`: `web/../generated` with `web` a symbolic link into another tree; a hand-written typegen block in tauri.conf.json followed by `init --output` another document] "
                 "(incl. a sub-directory with a types.ts) and 5 reserved decoys; sequences of generate / generate --visualize-deps / build-script runs / init (tauri.conf.json and custom file) / runs after all commands were removed; "
                 "recursive hash+mtime snapshot of the whole sandbox before and after every action; non-trivial = all; distinct = (layout, path kind, mode, sequence, seed); further layouts (directory names with a backslash / spaces / `./x/./y/`), a blocked write probe, a foreign directory called `.typecache`, `init` with a named configuration document, user files that look generated or carry the tool's header, every sequence of up to three actions over {generate, build, generate --visualize-deps, touch a source, drop the commands, doctored cache record, blocked / unblocked probe, .typecache directory} ending in a run (thorough: all 273; quick: one in ten), an output flag spelled like the default",
            exhaustive={"quick": False, "thorough": False},
        ),
        "C08": dict(
            cases=pcases.cases_c08, theorems="Typegen.Theorems.C08",
            trusted_base=[LEAN_TB, PROC_TB, "tg-extract (syn) re-reads the *HashData field lists from src/build/generation_cache.rs on every run; the theorem C08_hashedFields_cover is re-checked against them"],
            assumptions=FS_ASSUME + ["one representative edit per output-affecting edit class (31 classes + event on/off + commands on/off)", "the hash function is injective on the hashed view (collisions are outside the model)"],
            rule="histories [run, edit a, run] for every edit class a (incl. non-`pub` field, visibility, async), [setting on, run, setting off + edit, run, setting on, run] for the five settings, every sequence of up to three steps over {run, forced run, edit, revert, lose types.ts, lose the record, run with a write fault} followed by a run (thorough: all; quick: one in five rotating with the seed), forced runs between an edit and its revert, silent attribute edits (harmless today), [run, delete f, run] for every generated file and the cache record, on both paths; [run, edit a, run, edit b, run] for ordered pairs (quick: every 7th pair rotating with the seed; thorough: all 552 + reverted pairs on the build path);  [edit classes also: Rust-spelling-only changes with the visualisation on, a channels-only command's rename_all, an error type that starts being emitted, the kind of a member-less type] "
                 "after every successful run the output is compared byte-wise (timestamp line ignored) with a forced generation into an empty directory; non-trivial = history with >=2 steps; distinct = history",
            exhaustive={"quick": False, "thorough": True},
            exhaustive_scope={"thorough": "all single edits and ordered pairs of the 24 edit classes"},
        ),
    }
