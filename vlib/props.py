"""Per-property specifications for the function-level checks."""

LEAN_TB = "Lean 4.33.0 kernel (axioms allowed: propext, Classical.choice, Quot.sound; witnesses by `decide +kernel`)"
HARNESS_TB = "correspondence check: harness/ (Rust, in-process calls into /repo's public API) | tgdriver (compiled Lean model), compared per case"

SPECS = {
    "C20": dict(
        groups=["graph"],
        theorems="Typegen.Theorems.C20",
        trusted_base=[LEAN_TB, HARNESS_TB,
                      "modelled, not verified: HashSet/HashMap iterate in some fixed permutation (the order is observed by the harness and handed to the model)",
                      "run-time oracle uses an executable bounded closure for reachability; the theorems use the inductive relation `Reaches`"],
        assumptions=["std HashSet iteration order is stable while the set is unmodified",
                     "DependencyResolver's internal HashMap order is unobservable: compared on ok/err + validity of the order"],
        rule="all digraphs on <=3 (quick) / <=4 (thorough) labelled nodes incl. self-loops x all non-empty request subsets, "
             "rebuilt several times for fresh hash orders, plus random graphs up to 12 nodes (multi-edges, undefined deps); "
             "non-trivial = at least one edge and two names; distinct = by hash of the abstract graph+request",
        exhaustive={"quick": True, "thorough": True},
        exhaustive_scope={"quick": "digraphs on 1..3 labelled nodes x request subsets", "thorough": "digraphs on 1..4 labelled nodes (65 536) x 15 request subsets"},
    ),
    "C05": dict(
        groups=["types"],
        theorems="Typegen.Theorems.C05",
        trusted_base=[LEAN_TB, HARNESS_TB,
                      "modelled, not verified: syn parses the rendered source into the tree the IR printed; proc-macro2/quote unused here",
                      "spec: T.denote (README table) and T.printSpec are the definition of 'denotes the JSON shape'; T.parseTsTy (recogniser) is trusted as the reading of TypeScript type syntax and is exercised on every case (parse o print is a run-time test, not yet a theorem)"],
        assumptions=["strings are List Char; only ASCII space is trimmed (type_to_string emits no other whitespace)",
                     "zod-mode param/field sites are compared for model=implementation only; their shape is decided under C10"],
        rule="all type expressions of depth <=2 (quick) / <=3 (thorough) over {String,i32,bool,&str,(),User,Mode} x the README constructors "
             "(binary constructors over the first 12/40 sub-terms), at all five sites in ts mode and rotating sites in zod mode; all 17 primitive names at depth <=1; "
             "random types to depth 6 with/without type mappings; string mutations for parse_type_structure; non-trivial = at least one constructor; "
             "distinct = hash of (type, site, mode, mappings)",
        exhaustive={"quick": True, "thorough": True},
        exhaustive_scope={"quick": "depth<=2 over 7 leaf classes (binary constructors capped at 12 sub-terms)", "thorough": "depth<=3 (binary constructors capped at 40 sub-terms)"},
        partial=["C05_partial: full statement minus CommaSafe/precSafe; excluded classes are known findings K05a, K05bcd; return/event sites additionally K05g (add_types_prefix)",
                 "parse_print (parseTsTy (printSpec t) = some t) is tested per case, not proved"],
    ),
}
