"""C15 at process level: the real CLI on directory trees taken from the robust request stream;
exit status must be 0 or 1 (never a panic's 101, never a signal), stderr must not report a panic."""
import json
import os

from . import core, proc

GOOD = None


def _good():
    global GOOD
    if GOOD is None:
        src = open(os.path.join(core.HARNESS, "src", "ops_robust.rs"), encoding="utf-8").read()
        a = src.index('pub const GOOD: &str = r#"') + len('pub const GOOD: &str = r#"')
        GOOD = src[a:src.index('"#;', a)]
    return GOOD


def run(req_path, tier, seed):
    """returns (evaluations, failures, notes); a failure = {"files", "args", "rc", "stderr"}"""
    core.build_cli()
    want = 400 if tier == "thorough" else 60
    cases = []
    with open(req_path, encoding="utf-8") as fh:
        for line in fh:
            if '"from"' in line:
                continue
            r = json.loads(line)
            if r.get("op") != "robustSrc":
                continue
            files = r["in"].get("files", [])
            if all("text" in f for f in files):
                cases.append(files)
    step = max(1, len(cases) // want)
    picked = cases[(seed % step)::step][:want]
    # CLI only: deeply nested expressions and types (the parser recurses; the main thread's stack takes a few hundred levels)
    for depth in (60, 150, 300):
        picked.append([{"path": "deep_expr.rs", "text": "#[tauri::command]\npub fn deep() -> i32 {\n    %s1%s\n}\n" % ("(" * depth, ")" * depth)},
                       {"path": "deep_type.rs", "text": "#[tauri::command]\npub fn deep_ty(x: %su8%s) {}\n" % ("Vec<" * min(depth, 120), ">" * min(depth, 120))}])
    # corpus: projects on which a seeded change once made the CLI panic for a reason no generator reaches by chance (here: a
    # project whose digest of the discovered events happens to be numerically tiny - one in 2^28 documents)
    picked.append([{"path": "src/lib.rs", "alone": True, "text": "use tauri::{AppHandle, Emitter};\n\n#[tauri::command]\npub fn queue_render(app: AppHandle, path: String) -> Result<(), String> {\n    app.emit(\"media-queued-render-job\", path).map_err(|e| e.to_string())\n}\n"}])
    fails, n = [], 0
    hist = {}
    for idx, files in enumerate(picked):
        d = proc.sandbox("c15cli")
        try:
            fs = {os.path.join("src-tauri", f["path"]): f["text"] for f in files}
            if not any(f.get("alone") for f in files):
                fs[os.path.join("src-tauri", "good_fixed.rs")] = _good()
            proc.write_files(d, fs)
            for lib in ("none", "zod"):
                # the project / output directory under the spellings a user types (trailing and doubled separators,
                # `/.`, relative to the working directory)
                style = (idx + (lib == "zod")) % 6
                pdir = os.path.join(d, "src-tauri")
                ppath = [pdir, pdir + "/", pdir + "//", pdir + "/.", "./src-tauri", "src-tauri/"][style]
                opath = os.path.join(d, "out_" + lib) + ("/" if style in (1, 5) else "")
                args = ["generate", "-p", ppath, "-o", opath, "--validation", lib]
                try:
                    rc, out, err = proc.run_cli(d, args, timeout=120)
                except Exception as e:  # timeout: does not terminate
                    rc, out, err = -999, "", "timeout: %s" % e
                n += 1
                hist[rc] = hist.get(rc, 0) + 1
                if rc not in (0, 1) or "panicked at" in err or "RUST_BACKTRACE" in err:
                    fails.append({"files": files, "args": args[:1] + ["-p", ppath.replace(d, "<dir>"), "-o", opath.replace(d, "<dir>"), "--validation", lib],
                                  "rc": rc, "stderr": err[-800:]})
        finally:
            proc.cleanup(d)
    return n, fails, ["cli runs: %d, exit status histogram: %s" % (n, hist)]
