"""Case generators of the process-level properties (C08, C13, C14, C16, C17, C19)."""
import itertools
import json
import os
import shutil
from concurrent.futures import ThreadPoolExecutor

from . import core, hist, proc, projgen
from .pcheck import Case

POOL = ThreadPoolExecutor(max_workers=12)


# ----------------------------------------------------------------------------------------------- C13
C13_MAPPINGS = {"std::time::Duration": "number", "chrono::Duration": "string", "time::Duration": "boolean", "PathBuf": "string"}


def gen_once(files, mode, extra_args=(), keep=None):
    d = proc.sandbox("c13")
    try:
        proc.write_files(os.path.join(d, "src-tauri"), files)
        # the settings come from a file with a mapping table (several qualified keys sharing their last segment: none of
        # them names the bare `Duration` the sources use); flags on the command line still prevail
        with open(os.path.join(d, "typegen.json"), "w") as fh:
            json.dump({"project_path": "src-tauri", "output_path": "out", "validation_library": mode, "type_mappings": C13_MAPPINGS}, fh)
        rc, so, se = proc.run_cli(d, ["generate", "-c", "typegen.json", "-p", "src-tauri", "-o", "out", "-v", mode] + list(extra_args))
        return rc, proc.read_out(os.path.join(d, "out")), se
    finally:
        proc.cleanup(d)


def c13_project(seed, nfiles, mode, reps):
    p = projgen.make_project(seed, nfiles)
    files = projgen.render(p)
    desc = {"seed": seed, "nfiles": nfiles, "mode": mode}
    # determinism across fresh processes is also demanded when a type name is defined in two files (which definition
    # wins may depend on the layout, never on the process); the source transformations below use the project without
    # that duplicate, because moving a definition legitimately changes the winner
    dfiles = projgen.render(projgen.make_project(seed, nfiles, dup=True))
    druns = list(POOL.map(lambda _: gen_once(dfiles, mode), range(reps)))
    dsame = all(r[0] == druns[0][0] and r[1] == druns[0][1] for r in druns)
    runs = list(POOL.map(lambda _: gen_once(files, mode), range(reps)))
    rc0, base, _ = runs[0]
    cases = []
    same = all(r[0] == rc0 and r[1] == base for r in runs)
    diff = []
    if not same:
        for r in runs:
            for n in base:
                if r[1].get(n) != base[n] and n not in diff:
                    diff.append(n)
    cases.append(Case(dict(desc, what="repeat", processes=reps), {"deterministic": same and rc0 == 0},
                      detail={"differing_files": diff}))
    cases.append(Case(dict(desc, what="repeat_duplicate_type_name", processes=reps), {"deterministic": dsame and druns[0][0] == 0}))
    # verbosity and the dependency visualisation
    rcv, verb, _ = gen_once(files, mode, ["--verbose"])
    cases.append(Case(dict(desc, what="verbose"), {"verbose_irrelevant": verb == base}))
    rcz, viz, _ = gen_once(files, mode, ["--visualize-deps"])
    rcz2, viz2, _ = gen_once(files, mode, ["--visualize-deps"])
    extra = sorted(set(viz) - set(base))
    # (the cache record legitimately differs: visualize_deps is part of the key)
    cases.append(Case(dict(desc, what="visualize"), {
        "viz_only_adds_two_files": extra == ["dependency-graph.dot", "dependency-graph.txt"]
        and all(viz.get(n) == base[n] for n in base if n != ".typecache"),
        "viz_files_deterministic": viz == viz2}))
    # semantics-preserving source transformations
    noisy = projgen.render(projgen.add_noise(p, seed + 1))
    rcn, nout, _ = gen_once(noisy, mode)
    cases.append(Case(dict(desc, what="noise"), {"noise_irrelevant": {k: v for k, v in nout.items() if k != ".typecache"}
                                               == {k: v for k, v in base.items() if k != ".typecache"}}))
    # white space only: CRLF line endings, tabs for indentation, trailing blanks, blank lines between items
    ws = {k: v.replace("    ", "\t").replace("\n", "  \r\n").replace("}  \r\n", "}  \r\n\r\n\r\n") for k, v in files.items()}
    rcw, wout, _ = gen_once(ws, mode)
    cases.append(Case(dict(desc, what="whitespace"), {"whitespace_irrelevant": rcw == 0 and {k: v for k, v in wout.items() if k != ".typecache"}
                                                      == {k: v for k, v in base.items() if k != ".typecache"}}))
    # … and the other way round: every function body on as few lines as possible (statements joined on one line)
    import re as _re
    one = {k: _re.sub(r";\n[ \t]+", "; ", v) for k, v in files.items()}
    rco, oout, _ = gen_once(one, mode)
    cases.append(Case(dict(desc, what="joined_lines"), {"whitespace_irrelevant": rco == 0 and {k: v for k, v in oout.items() if k != ".typecache"}
                                                        == {k: v for k, v in base.items() if k != ".typecache"}}))
    for what, tr in (("reorder", projgen.reorder), ("move", projgen.move_items), ("split", projgen.split_helpers), ("move_odd_dirs", projgen.move_to_odd_dirs), ("rotate", projgen.rotate)):
        rct, tout, _ = gen_once(projgen.render(tr(p, seed + 2)), mode)
        ok = rct == 0 and all(sorted(proc.blocks(tout.get(n, ""))) == sorted(proc.blocks(base[n]))
                              for n in base if n.endswith(".ts"))
        cases.append(Case(dict(desc, what=what), {"same_declarations": ok}))
    return cases


def c13_verbose_long(seed, mode):
    """verbosity on a project whose commands name many types with long non-ASCII names (whatever the analysis prints about
    them must not change, or end, the run)"""
    files = projgen.render(projgen.make_project(seed, 1))
    rc0, base, _ = gen_once(files, mode)
    rc1, verb, se = gen_once(files, mode, ["--verbose"])
    return Case({"what": "verbose_long", "seed": seed, "mode": mode}, {"verbose_irrelevant": rc0 == 0 and rc1 == 0 and verb == base},
                detail={"rc": [rc0, rc1], "stderr": se[-200:]})


def cases_c13(ctx):
    tier, seed = ctx["tier"], ctx["seed"]
    if ctx["replay"]:
        d = ctx["replay"]["replay_case"]
        if d.get("what") == "verbose_long":
            return [c13_verbose_long(d["seed"], d["mode"])]
        return c13_project(d["seed"], d["nfiles"], d["mode"], 12)
    out = []
    nproj, reps = (30, 40) if tier == "thorough" else (5, 8)
    for i in range(nproj):
        nfiles = 2 + (i % 5)
        for mode in ("none", "zod"):
            out += c13_project(seed * 1000 + i, nfiles, mode, reps)
    for k in range(24 if tier == "thorough" else 8):
        out.append(c13_verbose_long(4 * (seed * 50 + k) + 3, ("none", "zod")[k % 2]))
    return out


# ----------------------------------------------------------------------------------------------- histories
def run_history(args):
    steps, build, label = args
    obs = hist.execute(steps, build=build, name=label)
    return steps, build, obs


def history_cases(histories, ctx, extra_oracle=None, classify=None):
    tables = ctx["tables"]
    hashed = hist.hashed_aspects(tables)
    results = list(POOL.map(run_history, [(s, b, "h") for s, b in histories]))
    out = []
    for i, (steps, build, obs) in enumerate(results):
        oracle = {"ok_means_current": all(o.get("current", True) for o in obs if o["res"] == "ok")}
        if extra_oracle:
            oracle.update(extra_oracle(steps, obs))
        classes = classify(steps, obs, hashed) if classify else []
        req = hist.request(i, steps, obs, hashed, tables, build=build)
        out.append(Case({"steps": steps, "build": build}, oracle, classes, request=req,
                        nontrivial=len(steps) >= 2, detail={"obs": obs}))
    return out


def RUN(forced=False, fault=None, kind=None, leftover=None, path=None):
    d = {"k": "run"}
    if path:
        d["path"] = path
    if forced:
        d["forced"] = True
    if fault is not None:
        d["fault"] = fault
    if kind:
        d["kind"] = kind
    if leftover:
        d["leftover"] = leftover
    return d


def EDIT(a, delta=1):
    d = {"k": "edit", "aspect": a}
    if delta != 1:
        d["delta"] = delta
    return d


def DEL(f):
    return {"k": "delete", "file": f}


def classify_c08(steps, obs, hashed):
    cl = []
    edited = [s["aspect"] for s in steps if s["k"] == "edit"]
    if any(a in hist.ASPECTS and a not in hashed for a in edited) or ("toggle_events" in edited and "event_name" not in hashed):
        cl.append("K08a_unhashedAspect")
    if any(s["k"] == "delete" and s["file"] != ".typecache" for s in steps):
        cl.append("deletedFile")
    return cl


def cases_c08(ctx):
    tier = ctx["tier"]
    if ctx["replay"]:
        d = ctx["replay"]["replay_case"]
        return history_cases([(d["steps"], d["build"])], ctx, classify=classify_c08)
    hs = []
    aspects = hist.ASPECTS + ["toggle_events", "remove_commands"]
    for build in (False, True):
        for a in aspects:
            hs.append(([RUN(), EDIT(a), RUN()], build))
        for f in ["types.ts", "commands.ts", "events.ts", "index.ts", ".typecache"]:
            hs.append(([RUN(), DEL(f), RUN()], build))
        hs.append(([RUN(), RUN()], build))
        # edits after which every rewritten file is *shorter* than before (a writer must replace, not overlay)
        hs.append(([EDIT("struct_field_add"), EDIT("enum_variant"), RUN(), EDIT("struct_field_add", -1), EDIT("enum_variant", -1), RUN()], build))
        hs.append(([EDIT("output_mode"), RUN(), EDIT("output_mode"), RUN()], build))
        hs.append(([EDIT("output_mode"), RUN(), EDIT("validator"), RUN()], build))
        hs.append(([EDIT("visualize_deps"), RUN(), DEL("dependency-graph.txt"), RUN()], build))
        # with the dependency visualisation on (its two files print Rust spellings): every edit class again
        for i, a in enumerate(aspects):
            if tier == "thorough" or a in ("param_int_width", "ret_int_width", "param_type") or i % 4 == ctx["seed"] % 4:
                hs.append(([EDIT("visualize_deps"), RUN(), EDIT(a), RUN()], build))
    # systematic: every sequence of up to three steps over {run, forced run, edit, revert the edit, lose a generated file,
    # lose the record, run with a write fault} followed by a plain run (quick: one in five, rotating with the seed)
    alphabet = [RUN(), RUN(forced=True), EDIT("param_type"), EDIT("param_type", -1), DEL("types.ts"), DEL(".typecache"), RUN(fault=2)]
    seqs = [[]]
    allseq = []
    for _ in range(3):
        seqs = [q + [a] for q in seqs for a in alphabet]
        allseq += seqs
    k = 0
    for q in allseq:
        if not any(st["k"] == "run" for st in q):
            continue
        # the obstacle of a faulty run displaces the file it stands in for: it is only placed where the run regenerates
        # anyway (first run, or right after an edit / the loss of the record)
        def regenerates(i):
            return i == 0 or q[i - 1]["k"] == "edit" or (q[i - 1]["k"] == "delete" and q[i - 1]["file"] == ".typecache")
        if any(st.get("fault") is not None and not regenerates(i) for i, st in enumerate(q)):
            continue
        # "revert the edit" needs an edit to revert
        level, okq = 0, True
        for st in q:
            if st["k"] == "edit":
                level += st.get("delta", 1)
                okq = okq and level >= 0
        if not okq:
            continue
        for build in (False, True):
            k += 1
            if tier == "thorough" or k % 5 == ctx["seed"] % 5:
                hs.append(([dict(x) for x in q] + [RUN()], build))
    # a rename value replaced by one that differs in a single non-ASCII character (same low byte of the code point)
    for build in (False, True):
        hs.append(([EDIT("field_serde_rename", 4), RUN(), EDIT("field_serde_rename"), RUN(), EDIT("field_serde_rename", -1), RUN()], build))
    # a field renamed to its own identifier under a container rule that changes that identifier
    for build in (False, True):
        hs.append(([EDIT("struct_rename_all"), RUN(), EDIT("field_serde_rename", 3), RUN(), EDIT("field_serde_rename", -3), RUN()], build))
    # a forced run in the middle: what it wrote must be what the record describes afterwards
    for build in (False, True):
        for a in (("param_type", "struct_field_type", "cmd_name", "output_mode", "event_name") if tier == "thorough" else ("param_type", "output_mode")):
            hs.append(([RUN(), EDIT(a), RUN(forced=True), EDIT(a, -1), RUN()], build))
            hs.append(([EDIT(a), RUN(forced=True), EDIT(a, -1), RUN(), RUN()], build))
    # a setting switched on, off (with a source edit meanwhile) and on again: what the first run left behind must not pass
    # for the result of the third
    for build in (False, True):
        for a in ("visualize_deps", "output_mode", "param_case", "field_case", "type_mappings"):
            for b in (("param_type", "struct_field_type", "event_name") if tier == "thorough" else ("param_type",)):
                hs.append(([EDIT(a), RUN(), EDIT(a, -1), EDIT(b), RUN(), EDIT(a), RUN()], build))
    # sequences of two edits (quick: a rotating sample; thorough: all ordered pairs) on the CLI path
    pairs = list(itertools.permutations(aspects, 2))
    if tier != "thorough":
        pairs = pairs[ctx["seed"] % 7::7]
    for a, b in pairs:
        hs.append(([RUN(), EDIT(a), RUN(), EDIT(b), RUN()], False))
    if tier == "thorough":
        for a, b in pairs[::5]:
            hs.append(([RUN(), EDIT(a), EDIT(b), RUN(), EDIT(a, -1), RUN()], True))
    return history_cases(hs, ctx, classify=classify_c08)


# ----------------------------------------------------------------------------------------------- C14
PRIM_ONLY = {
    "lib.rs": "mod commands;\n",
    "commands.rs": "#[tauri::command]\npub fn ping(n: i32) -> String {\n    n.to_string()\n}\n\n"
                   "#[tauri::command]\npub async fn add(a: u64, b: u64, note: Option<String>) -> Result<u64, String> {\n    Ok(a + b)\n}\n",
}


def c14_multi(seed, nfiles, mode, build, viz=False, prim=False):
    """a multi-file project: the second and third non-forced runs must leave every byte and mtime untouched
    (`viz`: with the dependency visualisation switched on; `prim`: a project whose commands use no serde type at all)"""
    p = projgen.make_project(seed, nfiles, dup=True)
    d = proc.sandbox("c14")
    try:
        proc.write_files(os.path.join(d, "src-tauri"), PRIM_ONLY if prim else projgen.render(p))
        if seed % 2 == 1:
            # a `.rs` file that is no Rust file on its own (an `include!` fragment): skipped, never a reason to regenerate
            proc.write_files(os.path.join(d, "src-tauri"), {"fragments/table.rs": "[\n    (1, \"one\"),\n    (2, \"two\"),\n]\n", "fragments/expr.rs": "1 + 2\n"})
        with open(os.path.join(d, "typegen.json"), "w") as fh:
            json.dump({"project_path": "src-tauri", "output_path": "out", "validation_library": mode, "visualize_deps": viz,
                       "type_mappings": {"PathBuf": "string", "Uuid": "string", "DateTime<Utc>": "string"}}, fh)
        if build:
            with open(os.path.join(d, "tauri.conf.json"), "w") as fh:
                json.dump({"productName": "x"}, fh)
        run = (lambda: proc.run_build(d)) if build else (lambda: proc.run_cli(d, ["generate", "-c", "typegen.json"]))
        rc1, _, e1 = run()
        outd = os.path.join(d, "out")
        if rc1 == 0 and seed % 3 == 0 and os.path.isfile(os.path.join(outd, "types.ts")):
            # one output file is a symbolic link to a regular file with the same bytes (outputs kept in another tree)
            store = os.path.join(d, "store")
            os.makedirs(store, exist_ok=True)
            shutil.move(os.path.join(outd, "types.ts"), os.path.join(store, "types.ts"))
            os.symlink(os.path.join(store, "types.ts"), os.path.join(outd, "types.ts"))
        if rc1 == 0 and seed % 2 == 0:
            # files of the user's that merely look generated, appearing after the first generation
            for n in ("api_generated.md", "generated_notes.txt", "schemas.d.ts", "README.md"):
                with open(os.path.join(outd, n), "w") as fh:
                    fh.write("mine: %s\n" % n)
        if rc1 == 0 and seed % 3 != 1:
            # … and empty ones (a placeholder that keeps the directory under version control)
            for n in (".gitkeep", "empty.ts"):
                open(os.path.join(outd, n), "w").close()
        s1 = proc.snapshot(outd)
        touched = []
        ok = rc1 == 0
        for k in range(3):
            if k == 1:
                # the sources are saved again with the bytes they had (an editor's save, `touch`): only their times move
                for dp, _dn, fns in os.walk(os.path.join(d, "src-tauri")):
                    for fn in fns:
                        os.utime(os.path.join(dp, fn), None)
            rck, so, _ = run()
            s2 = proc.snapshot(os.path.join(d, "out"))
            ok = ok and rck == 0
            touched += [n for n in set(s1) | set(s2) if s1.get(n) != s2.get(n) and n not in touched]
        return Case({"what": "rerun", "seed": seed, "nfiles": nfiles, "mode": mode, "build": build, "viz": viz, "prim": prim},
                    {"rerun_touches_nothing": ok and not touched}, detail={"touched": touched, "stderr": e1[-200:]})
    finally:
        proc.cleanup(d)


def force_oracle(steps, obs):
    # every forced run must regenerate: it writes every file of the plan
    ok = True
    runs = [s for s in steps if s["k"] == "run"]
    for s, o in zip(runs, obs):
        if s.get("forced") and s.get("fault") is None:
            ok = ok and o["res"] == "ok" and o["action"] == "generated" and set(o["written"]) >= {"types.ts", "commands.ts", "index.ts"}
    return {"force_regenerates": ok}


def c14_flag_vs_config(flag, cfg_force, build):
    """force flag prevails over the configuration file; force: true in the file forces too"""
    sb = hist.Sandbox("c14f", build=build)
    try:
        sb.run()
        p = os.path.join(sb.root, "typegen.json")
        cfg = json.load(open(p))
        cfg["force"] = cfg_force
        json.dump(cfg, open(p, "w"))
        before = proc.snapshot(sb.out)
        if build:
            rc, so, se = proc.run_build(sb.root)
        else:
            rc, so, se = proc.run_cli(sb.root, ["generate", "-c", "typegen.json"] + (["--force"] if flag else []))
        after = proc.snapshot(sb.out)
        rewritten = [n for n in after if after[n] != before.get(n) and n.endswith(".ts")]
        expect = flag or cfg_force
        return Case({"what": "flag_vs_config", "flag": flag, "config_force": cfg_force, "build": build},
                    {"force_is_flag_or_config": rc == 0 and (bool(rewritten) == expect)}, detail={"rewritten": rewritten})
    finally:
        sb.close()


def c14_many_small(seed, n, mode):
    """many one-command projects, each generated twice on the CLI path: whatever the digest of a project happens to look
    like (leading zeros, any length in hexadecimal), the second run is a cache hit that touches nothing"""
    d = proc.sandbox("c14m")
    try:
        bad = []
        for i in range(n):
            root = os.path.join(d, "p%d" % i)
            proc.write_files(os.path.join(root, "src-tauri"), {"lib.rs": "#[tauri::command]\npub fn command_%d_%d(level: u%d) -> String {\n    todo!()\n}\n" % (seed, i, (8, 16, 32, 64)[i % 4])})
            args = ["generate", "-p", "src-tauri", "-o", "out", "-v", mode]
            rc1, _, _ = proc.run_cli(root, args)
            s1 = proc.snapshot(os.path.join(root, "out"))
            rc2, so2, _ = proc.run_cli(root, args)
            s2 = proc.snapshot(os.path.join(root, "out"))
            if rc1 != 0 or rc2 != 0 or s1 != s2 or "up to date" not in so2:
                bad.append(i)
        return Case({"what": "many_small", "seed": seed, "n": n, "mode": mode}, {"rerun_touches_nothing": not bad}, detail={"projects_regenerated": bad[:10]})
    finally:
        proc.cleanup(d)


def cases_c14(ctx):
    tier, seed = ctx["tier"], ctx["seed"]
    if ctx["replay"]:
        d = ctx["replay"]["replay_case"]
        if d.get("what") == "rerun":
            return [c14_multi(d["seed"], d["nfiles"], d["mode"], d["build"], d.get("viz", False), d.get("prim", False))]
        if d.get("what") == "flag_vs_config":
            return [c14_flag_vs_config(d["flag"], d["config_force"], d["build"])]
        if d.get("what") == "many_small":
            return [c14_many_small(d["seed"], d["n"], d["mode"])]
        return history_cases([(d["steps"], d["build"])], ctx, extra_oracle=force_oracle)
    out = []
    out.append(c14_many_small(seed, 400 if tier == "thorough" else 64, "none"))
    out.append(c14_many_small(seed + 1, 400 if tier == "thorough" else 64, "zod"))
    n = 24 if tier == "thorough" else 6
    jobs = [(seed * 100 + i, 1 + (i % 6), ("none", "zod")[i % 2], bool((i // 2) % 2), i % 3 == 1, False) for i in range(n)]
    # visualisation on/off x a project without any serde type, both paths
    jobs += [(seed * 100 + 90 + i, 1, ("none", "zod")[i % 2], bool(i // 2 % 2), bool(i // 4 % 2), True) for i in range(8)]
    out += list(POOL.map(lambda a: c14_multi(*a), jobs))
    hs = []
    for build in (False, True):
        hs.append(([RUN(), RUN(), RUN()], build))
        # forced runs from every cache state: absent, matching, mismatching, corrupt/lost
        hs.append(([RUN(forced=True)], build))
        hs.append(([RUN(), RUN(forced=True)], build))
        hs.append(([RUN(), EDIT("param_type"), RUN(forced=True), RUN()], build))
        hs.append(([RUN(), DEL(".typecache"), RUN(forced=True), RUN()], build))
        hs.append(([RUN(forced=True), RUN(forced=True)], build))
        # outputs that an earlier state produced and the current one does not (events.ts after the last emit went away)
        hs.append(([RUN(), EDIT("toggle_events"), RUN(), RUN(), RUN()], build))
        hs.append(([EDIT("visualize_deps"), RUN(), EDIT("visualize_deps"), RUN(), RUN()], build))
        # a generated file goes missing while the record still matches: the repair run regenerates, the runs after it rest
        for f in ("types.ts", "commands.ts", "index.ts", "events.ts"):
            hs.append(([RUN(), DEL(f), RUN(), RUN(), RUN()], build))
    out += history_cases(hs, ctx, extra_oracle=force_oracle)
    for build in (False, True):
        for flag, cf in ((False, True), (True, False), (True, True), (False, False)):
            if build and flag:
                continue
            out.append(c14_flag_vs_config(flag, cf, build))
    return out


# ----------------------------------------------------------------------------------------------- C17
def fault_oracle(steps, obs):
    ok = True
    runs = [s for s in steps if s["k"] == "run"]
    for i, (s, o) in enumerate(zip(runs, obs)):
        if s.get("fault") is not None and o["action"] != "upToDate":
            # a fault at the output path or at a binding file must be reported
            ok = ok and o["res"] == "err"
    # the recovery run (the last one, without obstacle) must succeed
    if runs and runs[-1].get("fault") is None:
        ok = ok and obs[-1]["res"] == "ok"
    return {"failure_reported_and_recovered": ok}


def c17_init_case(fault, mode):
    """`init` writes the configuration and runs the first generation: a write fault in that generation must fail the
    command, and a later plain `generate` with the same settings ends like a fresh generation"""
    d = proc.sandbox("c17init")
    try:
        proc.write_files(os.path.join(d, "src-tauri"), hist.render_sources({"type_mappings": 0}))
        names = ["types.ts", "commands.ts", "events.ts", "index.ts"]
        out = os.path.join(d, "out")
        os.makedirs(out, exist_ok=True)
        target = os.path.join(out, names[fault])
        os.mkdir(target)
        args = ["init", "-p", "src-tauri", "-g", "out", "-o", "typegen_init.json", "--force", "-v", mode]
        rc1, so1, se1 = proc.run_cli(d, args)
        os.rmdir(target)
        rc2, so2, se2 = proc.run_cli(d, ["generate", "-p", "src-tauri", "-o", "out", "--validation", mode])
        fresh = proc.sandbox("c17fresh")
        try:
            shutil.copytree(os.path.join(d, "src-tauri"), os.path.join(fresh, "src-tauri"))
            rc3, _, _ = proc.run_cli(fresh, ["generate", "-p", "src-tauri", "-o", "out", "--validation", mode, "--force"])
            want = proc.read_out(os.path.join(fresh, "out"))
        finally:
            proc.cleanup(fresh)
        have = proc.read_out(out)
        stale = [n for n in want if n != ".typecache" and have.get(n) != want[n]]
        return Case({"what": "init_fault", "fault": fault, "mode": mode},
                    {"init_failure_reported": rc1 != 0, "recovered_like_fresh": rc2 == 0 and rc3 == 0 and not stale},
                    detail={"rc": [rc1, rc2, rc3], "stale": stale, "stderr": se1[-200:]})
    finally:
        proc.cleanup(d)


def c17_crash_case(build, limit, aspect, zod, lose=None, revert=False, forced=False):
    """a run that is *killed* in the middle of a write (file-size limit: SIGXFSZ) after an output-changing edit; the next
    plain run must not take the wreck for a finished generation"""
    sb = hist.Sandbox("c17crash", build=build)
    try:
        if zod:
            sb.edit("output_mode")
        o1 = sb.run()
        if lose:
            # the record still matches: the run regenerates only because a generated file is gone
            sb.delete(lose)
        elif forced:
            pass            # … or because it is forced
        else:
            sb.edit(aspect)
        if build:
            if forced:
                cp = os.path.join(sb.root, "typegen.json")
                cfgd = json.load(open(cp))
                cfgd["force"] = True
                json.dump(cfgd, open(cp, "w"))
            rc, so, se = proc.run_build(sb.root, fsize=limit)
            if forced:
                sb.sync()
        else:
            rc, so, se = proc.run_cli(sb.root, ["generate", "-c", "typegen.json"] + (["--force"] if forced else []), fsize=limit)
        if revert and not lose and not forced:
            # the edit is undone before the next run: the record of the run *before* the wreck matches the sources again
            sb.edit(aspect, -1)
        o3 = sb.run()
        return Case({"what": "crash", "build": build, "limit": limit, "aspect": aspect, "zod": zod, "lose": lose, "revert": revert, "forced": forced},
                    {"crashed_run_not_remembered": o1["res"] == "ok" and o3["res"] == "ok" and o3.get("current", False)},
                    detail={"crash_rc": rc, "after": {k: o3.get(k) for k in ("res", "action", "stale", "current")}, "stderr": se[-200:]})
    finally:
        sb.close()


def cases_c17(ctx):
    tier = ctx["tier"]
    if ctx["replay"]:
        d = ctx["replay"]["replay_case"]
        if d.get("what") == "init_fault":
            return [c17_init_case(d["fault"], d["mode"])]
        if d.get("what") == "crash":
            return [c17_crash_case(d["build"], d["limit"], d["aspect"], d["zod"], d.get("lose"), d.get("revert", False), d.get("forced", False))]
        return history_cases([(d["steps"], d["build"])], ctx, extra_oracle=fault_oracle)
    hs = []
    for build in (False, True):
        for viz, zod in ((False, False), (True, False), (False, True)):
            pre = ([EDIT("visualize_deps")] if viz else []) + ([EDIT("output_mode")] if zod else [])
            nfiles = 6 if viz else 4
            for f in range(0, nfiles + 1):
                # fault in a first run, then recovery
                hs.append((pre + [RUN(fault=f), RUN()], build))
                # fault in a run after an output-changing edit, then recovery
                hs.append((pre + [RUN(), EDIT("param_type"), RUN(fault=f), RUN()], build))
                # ... after which the sources are reverted before the recovery run
                hs.append((pre + [RUN(), EDIT("param_type"), RUN(fault=f), EDIT("param_type", -1), RUN()], build))
                if f >= 1:
                    # the open succeeds and the write fails (no space left: the target is a symlink to /dev/full)
                    hs.append((pre + [RUN(), EDIT("param_type"), RUN(fault=f, kind="devfull"), EDIT("param_type", -1), RUN()], build))
                # the failing run is a *forced* one (flag on the CLI, `force: true` in the file on the build path):
                # a forced run never reads the record, but must still not leave the old one behind when it fails
                hs.append((pre + [RUN(), EDIT("param_type"), RUN(forced=True, fault=f), EDIT("param_type", -1), RUN()], build))
                if tier == "thorough" or f % 2 == 0:
                    hs.append((pre + [RUN(), RUN(forced=True, fault=f), RUN()], build))
                if tier == "thorough":
                    hs.append((pre + [RUN(), EDIT("struct_field_type"), RUN(fault=f), EDIT("struct_field_type", -1), RUN(), RUN()], build))
                    hs.append((pre + [RUN(fault=f), RUN(fault=(f + 1) % (nfiles + 1)), RUN()], build))
    # the target is busy (the image of a running program), the output directory is on a read-only file system
    for build in (False, True):
        for f in ((1, 2, 4) if tier == "thorough" else (1, 3)):
            hs.append(([RUN(), EDIT("param_type"), RUN(fault=f, kind="busy"), EDIT("param_type", -1), RUN()], build))
            hs.append(([RUN(), EDIT("param_type"), RUN(fault=f, kind="busy"), RUN()], build))
            hs.append(([RUN(fault=f, kind="busy"), RUN()], build))
        hs.append(([RUN(fault=1, kind="rofs"), RUN()], build))
        hs.append(([RUN(), EDIT("param_type"), RUN(fault=1, kind="rofs"), RUN()], build))
        hs.append(([RUN(), EDIT("cmd_name"), RUN(fault=1, kind="rofs"), EDIT("cmd_name", -1), RUN()], build))
    # histories that mix the two entry points over one output directory (a build-script run, a command-line run that
    # fails, a build-script run): one directory, one record, whoever wrote it
    for f in (1, 2, 3):
        hs.append(([RUN(path="build"), RUN(path="cli", forced=True, fault=f), RUN(path="build")], True))
        hs.append(([RUN(path="cli"), RUN(path="build", forced=True, fault=f), RUN(path="cli")], True))
        hs.append(([RUN(path="build"), EDIT("param_type"), RUN(path="cli", fault=f), EDIT("param_type", -1), RUN(path="build")], True))
        hs.append(([RUN(path="cli"), EDIT("cmd_name"), RUN(path="build", fault=f), RUN(path="cli"), RUN(path="build")], True))
    # the cache record itself cannot be removed or rewritten while the binding files stay writable
    for build in (False, True):
        hs.append(([RUN(), EDIT("param_type"), RUN(fault=0, kind="immcache"), EDIT("param_type", -1), RUN()], build))
        hs.append(([RUN(), EDIT("param_type"), RUN(fault=0, kind="immcache"), RUN()], build))
        hs.append(([RUN(), EDIT("cmd_name"), RUN(forced=True, fault=0, kind="immcache"), EDIT("cmd_name", -1), RUN()], build))
    # the write probe cannot be created while every binding file is writable (build path: the run fails after the files)
    for build in (False, True):
        hs.append(([RUN(), EDIT("param_type"), RUN(leftover=".probe", kind="probe"), EDIT("param_type", -1), RUN()], build))
        hs.append(([RUN(leftover=".probe", kind="probe"), RUN()], build))
        hs.append(([RUN(), EDIT("cmd_name"), RUN(leftover=".probe", kind="probe"), RUN(), RUN()], build))
    for build in (False, True):
        for left in ("schemas.ts", "bindings.d.ts", "generated_old.ts"):
            hs.append(([RUN(), EDIT("param_type"), RUN(leftover=left), EDIT("param_type", -1), RUN()], build))
            hs.append(([RUN(leftover=left), RUN()], build))
    out = history_cases(hs, ctx, extra_oracle=fault_oracle)
    for f in range(4):
        out.append(c17_init_case(f, ("none", "zod")[f % 2]))
    # crash points: the process is killed inside the write that would push a file past 0 / 100 / 400 / 900 / 1500 bytes
    for build in (False, True):
        for k, limit in enumerate((0, 100, 400, 900, 1500) if tier == "thorough" else (0, 400, 1500)):
            out.append(c17_crash_case(build, limit, ("param_type", "cmd_name")[k % 2], k % 2 == 1))
        # the same limits with the signal ignored: the write is accepted up to the limit and then refused (a short write);
        # and a run that regenerates because a file went missing while the record still matches
        for k, limit in enumerate((-1, -400, -900, -1500) if tier == "thorough" else (-400, -1500)):
            out.append(c17_crash_case(build, limit, ("cmd_name", "param_type")[k % 2], k % 2 == 0))
            out.append(c17_crash_case(build, limit, "param_type", False, lose=("types.ts", "commands.ts")[k % 2]))
        out.append(c17_crash_case(build, 400, "param_type", False, lose="types.ts"))
        # the wreck of a run after a change that is then undone (the older record matches again); of a forced run
        for k, limit in enumerate((-1, -400, -1024, -1500, 400, 1500) if tier == "thorough" else (-400, -1024, 1500)):
            out.append(c17_crash_case(build, limit, ("output_mode", "param_type", "cmd_name")[k % 3], False, revert=True))
            out.append(c17_crash_case(build, limit, "param_type", k % 2 == 1, forced=True))
    return out


# ----------------------------------------------------------------------------------------------- C16
SPEC_RESERVED = {b + e for b in ("types", "commands", "events", "index", "schemas", "models", "bindings") for e in (".ts", ".d.ts")} | {
    ".typecache", "dependency-graph.txt", "dependency-graph.dot"}


def spec_reserved(name):
    return name in SPEC_RESERVED or name.startswith("generated_") or "_generated" in name


FOREIGN = ["notes.ts", "types.tsx", "mytypes.ts", "README.md", ".write_test", ".typecache.bak", "typesXts", "index.tsx",
           "generated", "Types.ts", "commands.ts.orig", "events.js", "x-generated.txt", ".gitkeep",
           # names a write-to-temp-then-rename, backup or editor scheme would use next to the reserved ones
           "types.tmp", "commands.tmp", "events.tmp", "index.tmp", "schemas.tmp", "types.ts.tmp", "commands.ts.tmp", "index.ts.tmp",
           "types.ts~", "types.ts.bak", "types.bak", ".types.ts.swp", "types.ts.new", "commands.new", ".typecache.tmp", "types.test.ts",
           "commands.mock.ts", "index.spec.ts", "index.mts", "types.cts", "dependency-graph.tmp", "tmp",
           # renderings of the graph the user made themselves
           "dependency-graph.png", "dependency-graph.svg", "dependency-graph.json", "dependency-graph",
           # the generated names in another letter case; ignore / configuration files of other tools
           "INDEX.ts", "Commands.ts", "EVENTS.TS", "types.TS", ".gitignore", ".npmignore", ".prettierignore", "tsconfig.json", "package.json", ".eslintrc.json"]
RESERVED_DECOYS = ["models.ts", "bindings.d.ts", "generated_old.ts", "x_generated.md", "schemas.ts"]


def model_allows(tables, n):
    """the extracted model of what the tool may touch inside the output directory"""
    if tables is None:
        return True
    own = set(tables["written_files"]) | set(tables["viz_files"]) | set(tables["cache_file"]) | set(tables["write_probe"])
    return (n in own or n in tables["generated_literals"] or any(n.startswith(p) for p in tables["generated_prefixes"])
            or any(p in n for p in tables["generated_infixes"]) or any(n.endswith(p) for p in tables["generated_suffixes"]))


def c16_case(layout, path_kind, mode, seq, seed, tables=None):
    """layout: where the output directory lives; seq: list of actions"""
    root = proc.sandbox("c16")
    try:
        proj = os.path.join(root, "proj")
        os.makedirs(os.path.join(root, "cargo_out_dir"), exist_ok=True)   # what cargo hands a build script as OUT_DIR
        p = projgen.make_project(seed, 2)
        # every third case: a project with commands and no events (no events.ts is ever due)
        proc.write_files(os.path.join(proj, "src-tauri"), PRIM_ONLY if (seed + len(seq)) % 3 == 0 else projgen.render(p))
        proc.write_files(proj, {"tauri.conf.json": json.dumps({"productName": "demo", "plugins": {"other": {"k": [1, 2]}}}, indent=2),
                                "package.json": "{}", "src/main.ts": "console.log(1)\n", "../sibling.txt": "outside\n"})
        out_rel = {"beside": "out", "nested": "src-tauri/generated", "deep": "web/src/lib/bindings", "up": "../outside_out",
                   "backslash": "ui\\generated", "spaces": "gen out/my bindings", "dotted": "./out2/./bindings/",
                   # directory names that themselves look like the tool's file-name patterns
                   "genlike": "./src/__generated__", "genprefix": "generated_bindings/ts_generated",
                   # `..` after a component that is a symbolic link into another tree: the system resolves the link first
                   "symup": "web/../generated"}[layout]
        out_abs = os.path.normpath(os.path.join(proj, out_rel))
        if layout == "symup":
            os.makedirs(os.path.join(root, "elsewhere", "web_real"), exist_ok=True)
            os.makedirs(proj, exist_ok=True)
            os.symlink("../elsewhere/web_real", os.path.join(proj, "web"))
            out_abs = os.path.realpath(os.path.join(proj, out_rel))
        os.makedirs(out_abs, exist_ok=True)
        # files of the user's *beside* the output directory that carry the names of generated files
        for n in ("events.ts", "types.ts", "commands.ts", "index.ts", ".typecache"):
            q = os.path.join(os.path.dirname(out_abs), n)
            if not os.path.exists(q):
                open(q, "w").write("// the user's own %s, next to the output directory\n" % n)
        for n in FOREIGN + RESERVED_DECOYS:
            q = os.path.join(out_abs, n)
            if n == "generated":
                os.makedirs(q, exist_ok=True)
                open(os.path.join(q, "types.ts"), "w").write("// foreign file in a subdirectory\n")
            else:
                open(q, "w").write("foreign %s\n" % n)
        # frozen copies of earlier bindings under names of the user's choosing: they carry the tool's header
        header = "/**\n * Auto-generated TypeScript bindings for Tauri commands\n * Generated by tauri-typegen v0.4.2\n * Do not edit manually\n */\nexport const frozen = 1;\n"
        for n in ("api-v1.ts", "frozen-types.ts", "legacy.bindings.ts"):
            open(os.path.join(out_abs, n), "w").write(header)
        out_arg = out_abs if path_kind == "abs" else out_rel
        with open(os.path.join(proj, "typegen.json"), "w") as fh:
            json.dump({"project_path": "src-tauri", "output_path": out_arg, "validation_library": mode}, fh)
        violations = []
        unmodelled = []
        log = []
        for act in seq:
            before = proc.snapshot(root)
            cfg_touched = None
            allowed_dir = out_abs
            if act == "generate":
                rc, so, se = proc.run_cli(proj, ["generate", "-c", "typegen.json"])
            elif act == "generate_viz":
                rc, so, se = proc.run_cli(proj, ["generate", "-p", "src-tauri", "-o", out_arg, "-v", mode, "--visualize-deps", "--force"])
            elif act == "build":
                # as under cargo: OUT_DIR names the build script's scratch directory (outside the output directory)
                rc, so, se = proc.run_build(proj, extra_env={"OUT_DIR": os.path.join(root, "cargo_out_dir")} if (seed + len(seq)) % 2 == 0 else None)
            elif act == "init":
                rc, so, se = proc.run_cli(proj, ["init", "-p", "src-tauri", "-g", out_arg, "-v", mode])
                cfg_touched = os.path.relpath(os.path.join(proj, "src-tauri", "tauri.conf.json"), root)
            elif act == "edit_index":
                # the user extends the generated barrel by hand: it now re-exports a module of their own
                ip = os.path.join(out_abs, "index.ts")
                if os.path.isfile(ip):
                    with open(ip, "a") as fh:
                        fh.write("export * from './helpers';\nexport * from './notes';\n")
                for n in ("helpers.ts", "notes.ts"):
                    open(os.path.join(out_abs, n), "w").write("export const mine = '%s';\n" % n)
                continue
            elif act == "init_other":
                # a second `init` naming another directory for the bindings: the one configured before is not this run's
                other = os.path.join(os.path.dirname(out_abs), "second_out")
                rc, so, se = proc.run_cli(proj, ["init", "-p", "src-tauri", "-g", other if path_kind == "abs" else os.path.relpath(other, proj), "-v", mode])
                cfg_touched = os.path.relpath(os.path.join(proj, "src-tauri", "tauri.conf.json"), root)
                allowed_dir = other
            elif act == "init_dot":
                # the configuration document named explicitly, in the `./` spelling, while the project path has one too
                rc, so, se = proc.run_cli(proj, ["init", "-p", "src-tauri", "-g", out_arg, "-o", "./tauri.conf.json", "-v", mode])
                cfg_touched = os.path.relpath(os.path.join(proj, "tauri.conf.json"), root)
            elif act == "cache_dir":
                # a foreign *directory* that happens to be called like the cache record, with a file of the user's in it
                cd = os.path.join(out_abs, ".typecache")
                if os.path.isfile(cd):
                    os.remove(cd)
                os.makedirs(cd, exist_ok=True)
                open(os.path.join(cd, "notes-of-mine.txt"), "w").write("keep me\n")
                continue
            elif act == "init_custom":
                rc, so, se = proc.run_cli(proj, ["init", "-p", "src-tauri", "-g", out_arg, "-o", "my-typegen.json", "-v", mode])
                cfg_touched = os.path.relpath(os.path.join(proj, "my-typegen.json"), root)
            elif act == "tamper_cache":
                # a well-formed cache record (the tool's own) with extra members naming foreign files
                cp = os.path.join(out_abs, ".typecache")
                if os.path.isfile(cp):
                    try:
                        rec = json.load(open(cp))
                        hostile = ["notes.ts", "README.md", "../sibling.txt", "../src/main.ts", "mytypes.ts", "../src-tauri/f0.rs"]
                        for key in ("outputs", "files", "generated_files", "managed_files", "written", "stale"):
                            rec[key] = hostile
                        json.dump(rec, open(cp, "w"))
                    except Exception:
                        pass
                continue
            elif act == "touch_source":
                # an output-changing edit, so that the next run regenerates
                proc.write_files(os.path.join(proj, "src-tauri"), {"extra_cmd.rs": "#[tauri::command]\npub fn extra_cmd_%d(flag: bool) -> bool { flag }\n" % len(log)})
                continue
            elif act == "drop_commands":
                shutil.rmtree(os.path.join(proj, "src-tauri"))
                proc.write_files(os.path.join(proj, "src-tauri"), {"lib.rs": "pub fn helper() {}\n"})
                continue
            elif act in ("block_probe", "unblock_probe"):
                # the write probe of `finalize_generation` cannot be created: a directory of its name is in the way
                probe = os.path.join(out_abs, (tables or {}).get("write_probe", [".write_test_generated"])[0])
                if act == "block_probe":
                    os.makedirs(probe, exist_ok=True)
                elif os.path.isdir(probe):
                    os.rmdir(probe)
                continue
            elif act == "need_conf_block":
                # the project's tauri.conf.json already carries a typegen block (written by hand, in a layout of its own)
                proc.write_files(os.path.join(proj, "src-tauri"), {"tauri.conf.json": "{\n    \"identifier\": \"x\",\n    \"plugins\": { \"typegen\": { \"outputPath\": \"%s\", \"validationLibrary\": \"none\" },\n        \"shell\": {\"open\": true} }\n}\n" % out_rel.replace("\\", "\\\\")})
                continue
            elif act == "need_conf":
                proc.write_files(os.path.join(proj, "src-tauri"), {"tauri.conf.json": json.dumps({"identifier": "x", "plugins": {}})})
                continue
            after = proc.snapshot(root)
            out_in_root = os.path.relpath(allowed_dir, root)
            for path in sorted(set(before) | set(after)):
                if before.get(path) == after.get(path):
                    continue
                if path.endswith("/"):
                    # directories: only the output directory chain may be created
                    if (out_in_root + "/").startswith(path):
                        continue
                    violations.append((act, path, "directory created/removed"))
                    continue
                d, n = os.path.split(path)
                if d == out_in_root and not model_allows(tables, n):
                    unmodelled.append((act, path))
                if d == out_in_root and spec_reserved(n):
                    continue
                if cfg_touched and path == cfg_touched:
                    continue
                violations.append((act, path, "created" if path not in before else ("deleted" if path not in after else "modified")))
            log.append((act, rc))
        classes = []
        if any(v[1].endswith("/.write_test") for v in violations) and all(v[1].endswith("/.write_test") for v in violations):
            classes.append("K16a_writeProbe")
        return Case({"layout": layout, "path": path_kind, "mode": mode, "seq": seq, "seed": seed},
                    {"only_own_files_touched": not violations}, classes,
                    detail={"violations": violations[:10], "log": log, "outside_extracted_model": unmodelled[:10]},
                    agree=not unmodelled)
    finally:
        proc.cleanup(root)


def c16_flag_default_case(mode, spelling):
    """the output directory is given on the command line in exactly the spelling of the built-in default while a discovered
    tauri.conf.json names another one: the flag decides, nothing is created at the file's path"""
    root = proc.sandbox("c16d")
    try:
        proc.write_files(os.path.join(root, "src-tauri"), PRIM_ONLY)
        with open(os.path.join(root, "tauri.conf.json"), "w") as fh:
            json.dump({"productName": "x", "plugins": {"typegen": {"projectPath": "./src-tauri", "outputPath": "./elsewhere/bindings", "validationLibrary": mode}}}, fh)
        before = proc.snapshot(root)
        rc, so, se = proc.run_cli(root, ["generate", "-o", spelling])
        after = proc.snapshot(root)
        allowed = os.path.normpath(spelling)
        bad = [p for p in sorted(set(before) | set(after)) if before.get(p) != after.get(p)
               and not (p.rstrip("/") == allowed or p.startswith(allowed + "/") or (allowed + "/").startswith(p))]
        return Case({"what": "flag_default", "mode": mode, "spelling": spelling},
                    {"only_own_files_touched": rc == 0 and not bad and os.path.isfile(os.path.join(root, allowed, "commands.ts"))}, [],
                    detail={"rc": rc, "outside": bad[:6], "stderr": se[-200:]})
    finally:
        proc.cleanup(root)


def c16_subdir_case(mode, seed):
    """build-script path with a current directory strictly below the directory that holds tauri.conf.json: the
    configured (cwd-relative) output directory is <cwd>/gen_out; a same-named directory beside the configuration
    file is not the output directory and must stay untouched"""
    root = proc.sandbox("c16s")
    try:
        st = os.path.join(root, "proj", "src-tauri")
        sub = os.path.join(st, "sub")
        p = projgen.make_project(seed, 2)
        proc.write_files(sub, projgen.render(p))
        proc.write_files(st, {
            "tauri.conf.json": json.dumps({"productName": "demo", "plugins": {"typegen": {
                "projectPath": ".", "outputPath": "gen_out", "validationLibrary": mode}}}),
            "Cargo.toml": "[package]\nname = \"x\"\nversion = \"0.1.0\"\n",
            "src/lib.rs": "#[tauri::command]\npub fn top_cmd(a: i32) -> i32 { a }\n"})
        for d in (os.path.join(st, "gen_out"), os.path.join(sub, "gen_out")):
            os.makedirs(d, exist_ok=True)
            for n in FOREIGN + RESERVED_DECOYS:
                q = os.path.join(d, n)
                if n == "generated":
                    os.makedirs(q, exist_ok=True)
                else:
                    open(q, "w").write("foreign %s\n" % n)
        violations, log = [], []
        allowed_dir = os.path.relpath(os.path.join(sub, "gen_out"), root)
        for _ in range(2):
            before = proc.snapshot(root)
            rc, so, se = proc.run_build(sub)
            after = proc.snapshot(root)
            log.append(rc)
            for path in sorted(set(before) | set(after)):
                if before.get(path) == after.get(path):
                    continue
                if path.endswith("/"):
                    violations.append((path, "directory created/removed"))
                    continue
                d, n = os.path.split(path)
                if d == allowed_dir and spec_reserved(n):
                    continue
                violations.append((path, "created" if path not in before else ("deleted" if path not in after else "modified")))
        return Case({"what": "build_subdir", "mode": mode, "seed": seed}, {"only_own_files_touched": not violations}, [],
                    detail={"violations": violations[:10], "log": log})
    finally:
        proc.cleanup(root)


def cases_c16(ctx):
    tier, seed = ctx["tier"], ctx["seed"]
    if ctx["replay"]:
        d = ctx["replay"]["replay_case"]
        if d.get("what") == "build_subdir":
            return [c16_subdir_case(d["mode"], d["seed"])]
        if d.get("what") == "flag_default":
            return [c16_flag_default_case(d["mode"], d["spelling"])]
        return [c16_case(d["layout"], d["path"], d["mode"], d["seq"], d["seed"], ctx["tables"])]
    seqs = [
        ["generate", "generate"],
        ["generate_viz", "generate"],
        ["build", "build"],
        ["generate", "drop_commands", "build", "generate"],
        ["need_conf", "init", "generate"],
        ["init_custom", "build"],
        ["build", "drop_commands", "build"],
        ["generate", "tamper_cache", "touch_source", "generate", "generate"],
        ["build", "tamper_cache", "touch_source", "build"],
        # a run that fails while managing its output, with unchanged sources (cache hit), then recovery
        ["build", "block_probe", "build", "unblock_probe", "build"],
        ["generate", "block_probe", "generate", "touch_source", "generate", "unblock_probe", "generate"],
        ["block_probe", "build", "unblock_probe", "build"],
        ["need_conf", "init_dot", "generate"],
        ["need_conf", "init", "generate", "init_other", "generate"],
        ["need_conf", "init", "init_other"],
        ["need_conf_block", "init_custom", "generate"],
        ["need_conf_block", "init_custom", "build"],
        ["need_conf_block", "generate", "init_custom"],
        ["generate", "edit_index", "touch_source", "generate", "build"],
        ["build", "edit_index", "touch_source", "build"],
        ["cache_dir", "generate", "build"],
        ["generate", "cache_dir", "touch_source", "generate", "build"],
    ]
    jobs = []
    k = 0
    for layout in ("beside", "nested", "deep", "up", "backslash", "spaces", "dotted", "genlike", "genprefix", "symup"):
        for path_kind in ("rel", "abs"):
            for seq in seqs:
                k += 1
                if tier != "thorough" and k % 2 == 0 and layout in ("deep",):
                    continue
                if tier != "thorough" and k % 3 != 0 and layout in ("backslash", "spaces", "dotted", "genlike", "genprefix", "symup"):
                    continue
                jobs.append((layout, path_kind, ("none", "zod")[k % 2], seq, seed * 10 + k % 3, ctx["tables"]))
    # systematic: every sequence of up to three actions (thorough: all 9 + 81 + 729 on one layout; quick: one in ten,
    # rotating with the seed)
    acts = ["generate", "build", "generate_viz", "touch_source", "drop_commands", "tamper_cache", "block_probe", "unblock_probe", "cache_dir"]
    runs = {"generate", "build", "generate_viz"}
    seqs3, cur = [], [[]]
    for _ in range(3):
        cur = [q + [a] for q in cur for a in acts]
        seqs3 += cur
    k = 0
    for q in seqs3:
        if q[-1] not in runs or not any(a in runs for a in q):
            continue
        k += 1
        if tier == "thorough" or k % 10 == seed % 10:
            jobs.append((("beside", "nested", "up")[k % 3], ("rel", "abs")[k % 2], ("none", "zod")[(k // 2) % 2], q, seed * 10 + k % 3, ctx["tables"]))
    out = list(POOL.map(lambda a: c16_case(*a), jobs))
    for k, mode in enumerate(("none", "zod")):
        out.append(c16_subdir_case(mode, seed * 10 + k))
        for sp in ("./src/generated", "src/generated", "./out"):
            out.append(c16_flag_default_case(mode, sp))
    return out


# ----------------------------------------------------------------------------------------------- C19
def c19_project(root, rel, cmd):
    proc.write_files(os.path.join(root, rel), {"lib.rs": "#[tauri::command]\npub fn %s(id: i32) -> String {\n    todo!()\n}\n" % cmd})


def spell_json(doc, spelling):
    """the same JSON document in another spelling: escaped characters in keys and values, wide indentation, reordered keys"""
    if spelling == "escaped":
        t = json.dumps(doc)
        for w in ("typegen", "plugins", "projectPath", "outputPath", "validationLibrary", "zod", "projA", "outFile"):
            t = t.replace('"%s"' % w, '"%s\\u%04x%s"' % (w[:2], ord(w[2]), w[3:]))
        return t
    if spelling == "pretty":
        return json.dumps(doc, indent=8, sort_keys=True) + "\n\n"
    if spelling == "reversed":
        def rev(x):
            return {k: rev(x[k]) for k in reversed(list(x))} if isinstance(x, dict) else x
        return json.dumps(rev(doc), separators=(",", ":"))
    return json.dumps(doc)


def c19_resolve_case(flags, filecfg, tables, spelling="plain", where="cwd", places=None):
    """one combination of command-line flags and a discovered tauri.conf.json block (`where`: which of the three places the
    tool looks in holds the document - the working directory, ./src-tauri, or the parent directory; `places`: what each of
    the three holds, in the tool's order - None (no file), "unreadable" (not JSON), "noblock" (a document without a typegen
    entry) or a block)"""
    top = proc.sandbox("c19")
    try:
        root = os.path.join(top, "app") if (where == "parent" or places is not None) else top
        os.makedirs(root, exist_ok=True)
        c19_project(root, "src-tauri", "from_default")
        c19_project(root, "projA", "from_file")
        c19_project(root, "projB", "from_flag")
        # an existing project without any command (an unsupported library is an error there too)
        proc.write_files(os.path.join(root, "empty_proj"), {"lib.rs": "pub fn helper() {}\n"})
        doc = None
        place_docs = None
        if places is not None:
            place_docs = []
            for at, pl in zip((root, os.path.join(root, "src-tauri"), top), places):
                if pl is None:
                    place_docs.append(None)
                    continue
                if pl == "unreadable":
                    text, d = "{ \"plugins\": { \"typegen\": ", "unreadable"
                elif pl == "noblock":
                    d = {"productName": "demo", "plugins": {"shell": {"open": True}}}
                    text = json.dumps(d)
                else:
                    d = {"productName": "demo", "plugins": {"typegen": pl}}
                    text = spell_json(d, spelling)
                place_docs.append(d)
                with open(os.path.join(at, "tauri.conf.json"), "w") as fh:
                    fh.write(text)
            filecfg = next((pl for pl in places if isinstance(pl, dict)), None)
        elif filecfg is not None:
            doc = {"productName": "demo", "plugins": {"typegen": filecfg}}
            conf_at = {"cwd": root, "src-tauri": os.path.join(root, "src-tauri"), "parent": top}[where]
            with open(os.path.join(conf_at, "tauri.conf.json"), "w") as fh:
                fh.write(spell_json(doc, spelling))
        args = ["generate"]
        if "p" in flags:
            args += ["-p", flags["p"]]
        if "o" in flags:
            args += ["-o", flags["o"]]
        if "v" in flags:
            args += ["-v", flags["v"]]
        if flags.get("verbose"):
            args += ["--verbose"]
        if flags.get("force"):
            args += ["--force"]
        before = proc.snapshot(top)
        rc, so, se = proc.run_cli(root, args)
        after = proc.snapshot(top)
        wrote = before != after
        observed = None
        if rc != 0:
            kind = "library" if "alidation library" in se else ("path" if "Project path does not exist" in se else "other")
            observed = {"err": kind}
        else:
            outdir = None
            cands = [flags.get("o"), (filecfg or {}).get("outputPath"), "./src/generated"] + [pl.get("outputPath") for pl in (places or []) if isinstance(pl, dict)]
            for cand in set(cands) - {None}:
                if os.path.isfile(os.path.join(root, cand, "commands.ts")):
                    outdir = cand
            if outdir is None:
                observed = {"err": "no output found"}
            else:
                cmds = open(os.path.join(root, outdir, "commands.ts")).read()
                types = open(os.path.join(root, outdir, "types.ts")).read()
                proj = {"fromDefault": "./src-tauri", "fromFile": "projA", "fromFlag": "projB"}
                pp = [v for k, v in proj.items() if ("function " + k) in cmds]
                lib = "zod" if "Generator: zod" in types else "none"
                verbose = "Found 1 Tauri commands" in so or "🔍" in so
                # force: a second identical invocation rewrites iff force is in effect
                s1 = proc.snapshot(os.path.join(root, outdir))
                proc.run_cli(root, args)
                s2 = proc.snapshot(os.path.join(root, outdir))
                observed = {"ok": {"projectPath": pp[0] if pp else "?", "outputPath": outdir, "validationLibrary": lib,
                                   "verbose": verbose, "force": s1.get("types.ts") != s2.get("types.ts")}}
        existing = ["./src-tauri", "projA", "projB", "empty_proj"]
        req = {"op": "configResolve", "h": core.hashlib.sha1(json.dumps([flags, filecfg, places], sort_keys=True).encode()).hexdigest()[:16],
               "in": dict({"flags": flags, "doc": doc, "existing": existing}, **({"places": place_docs} if place_docs is not None else {})),
               "impl": {"observed": observed, "wrote_anything": wrote and rc != 0}, "meta": {}}
        # stated outright, whatever the model says: a path flag names a place relative to where the tool was started
        orc = {"path_flags_in_effect":
               not (rc == 0 and "o" in flags and not os.path.isfile(os.path.join(root, flags["o"], "commands.ts")))
               and not ("p" in flags and os.path.isdir(os.path.join(root, flags["p"])) and (observed or {}).get("err") == "path")}
        return Case({"what": "resolve", "flags": flags, "file": filecfg, "spelling": spelling, "where": where, "places": places}, orc, [], request=req,
                    detail={"rc": rc, "stderr": se[-300:], "observed": observed})
    finally:
        proc.cleanup(top)


def c19_init_case(lib, plugins_value):
    """init: an unsupported library is rejected before the configuration file is touched"""
    root = proc.sandbox("c19i")
    try:
        c19_project(root, "src-tauri", "from_default")
        doc = {"productName": "demo", "identifier": "x"}
        if plugins_value is not None:
            doc["plugins"] = plugins_value
        cfgp = os.path.join(root, "src-tauri", "tauri.conf.json")
        with open(cfgp, "w") as fh:
            json.dump(doc, fh, indent=2)
        before = open(cfgp).read()
        snap = proc.snapshot(root)
        rc, so, se = proc.run_cli(root, ["init", "-p", "src-tauri", "-g", "out", "-v", lib])
        after = open(cfgp).read()
        snap2 = proc.snapshot(root)
        valid = lib in ("zod", "none") and (plugins_value is None or isinstance(plugins_value, dict))
        if valid:
            try:
                adoc = json.loads(after)
            except ValueError:
                adoc = {}
            written = adoc.get("plugins", {}).get("typegen", {}) if isinstance(adoc.get("plugins", {}), dict) else {}
            ok = rc == 0 and written.get("validationLibrary") == lib and all(
                adoc.get(k) == v for k, v in doc.items() if k != "plugins")
            return Case({"what": "init", "lib": lib, "plugins": plugins_value}, {"init_stores_settings": ok}, [],
                        detail={"rc": rc, "stderr": se[-200:]})
        return Case({"what": "init", "lib": lib, "plugins": plugins_value},
                    {"rejected_with_error": rc != 0, "nothing_written_on_rejection": snap == snap2}, [],
                    detail={"rc": rc, "stderr": se[-200:], "config_changed": before != after})
    finally:
        proc.cleanup(root)


def c19_init_badpath_case(project_arg, out_arg):
    """init with a project path that cannot exist (a component of it is a regular file, a name too long): rejected before
    anything is written"""
    root = proc.sandbox("c19b")
    try:
        c19_project(root, "src-tauri", "from_default")
        with open(os.path.join(root, "notes.txt"), "w") as fh:
            fh.write("a regular file\n")
        os.makedirs(os.path.join(root, "conf"), exist_ok=True)
        with open(os.path.join(root, "conf", "tauri.conf.json"), "w") as fh:
            json.dump({"productName": "conf-doc"}, fh)
        snap = proc.snapshot(root)
        rc, so, se = proc.run_cli(root, ["init", "-p", project_arg, "-g", "out", "-o", out_arg, "-v", "zod"])
        snap2 = proc.snapshot(root)
        return Case({"what": "init_badpath", "project": project_arg, "output": out_arg},
                    {"rejected_with_error": rc != 0, "nothing_written_on_rejection": snap == snap2}, [],
                    detail={"rc": rc, "stderr": se[-200:], "changed": sorted(k for k in set(snap) | set(snap2) if snap.get(k) != snap2.get(k))[:6]})
    finally:
        proc.cleanup(root)


def c19_init_target_case(out_arg, lib):
    """init told where the configuration lives (`--output <path>`): exactly that document receives the settings, every
    other key of it is preserved, and a tauri.conf.json elsewhere (in the project path / the working directory) is left
    alone"""
    root = proc.sandbox("c19t")
    try:
        c19_project(root, "src-tauri", "from_default")
        docs = {"tauri.conf.json": {"productName": "Rock, Paper,} Scissors", "bundle": {"resources": ["assets/{img,fonts,}/**", "a,]b"]}, "plugins": {"shell": {"open": True, "scope": "x,}"}}},
                "src-tauri/tauri.conf.json": {"productName": "project-doc", "identifier": "x"},
                "conf/tauri.conf.json": {"productName": "conf-doc"}}
        for rel, d in docs.items():
            os.makedirs(os.path.dirname(os.path.join(root, rel)) or root, exist_ok=True)
            with open(os.path.join(root, rel), "w") as fh:
                # the documents come in the layouts people (and formatters) write: 2 spaces, tabs, compact, comma-first, CRLF
                lay = (len(out_arg) + len(rel)) % 5
                if lay == 0:
                    json.dump(d, fh, indent=2)
                elif lay == 1:
                    json.dump(d, fh, indent="\t")
                elif lay == 2:
                    json.dump(d, fh)
                elif lay == 3:
                    fh.write("{ " + "\n, ".join("%s: %s" % (json.dumps(k), json.dumps(v)) for k, v in d.items()) + "\n}\n")
                else:
                    fh.write(json.dumps(d, indent=4).replace("\n", "\r\n"))
        before = {rel: open(os.path.join(root, rel)).read() for rel in docs}
        rc, so, se = proc.run_cli(root, ["init", "-p", "src-tauri", "-g", "out", "-o", out_arg, "-v", lib])
        after = {rel: open(os.path.join(root, rel)).read() for rel in docs}
        # the bare default name is documented to mean "the one in the project path"; every other spelling names a file
        target = "src-tauri/tauri.conf.json" if out_arg == "tauri.conf.json" else os.path.normpath(out_arg)
        try:
            got = json.loads(after[target]) if target in after else {}
        except ValueError:
            got = {"__not_json__": True}   # the rewritten document is not JSON any more
        stored = got.get("plugins", {}).get("typegen", {})
        ok_target = rc == 0 and stored.get("validationLibrary") == lib and stored.get("outputPath") == "out" and all(
            got.get(k) == v for k, v in docs[target].items() if k != "plugins") and all(
            got.get("plugins", {}).get(k) == v for k, v in docs[target].get("plugins", {}).items())
        others_untouched = all(after[rel] == before[rel] for rel in docs if rel != target)
        return Case({"what": "init_target", "output": out_arg, "lib": lib},
                    {"named_document_receives_settings": ok_target, "other_documents_untouched": others_untouched}, [],
                    detail={"rc": rc, "stderr": se[-200:], "changed": [r for r in docs if after[r] != before[r]]})
    finally:
        proc.cleanup(root)


def cases_c19(ctx):
    tier = ctx["tier"]
    if ctx["replay"]:
        d = ctx["replay"]["replay_case"]
        if d.get("what") == "init":
            return [c19_init_case(d["lib"], d["plugins"])]
        if d.get("what") == "init_target":
            return [c19_init_target_case(d["output"], d["lib"])]
        if d.get("what") == "init_badpath":
            return [c19_init_badpath_case(d["project"], d["output"])]
        return [c19_resolve_case(d["flags"], d["file"], ctx["tables"], d.get("spelling", "plain"), d.get("where", "cwd"), d.get("places"))]
    files = [None,
             {"projectPath": "projA", "outputPath": "outFile", "validationLibrary": "zod"},
             {"projectPath": "projA", "outputPath": "outFile", "validationLibrary": "zod", "verbose": True, "force": True},
             {"projectPath": "projA", "outputPath": "outFile", "validationLibrary": "yup"},
             {"projectPath": "missing/dir", "outputPath": "outFile", "validationLibrary": "zod"},
             {"outputPath": "outFile"},
             {},
             # members of the wrong JSON type next to good ones: the good ones still count
             {"projectPath": "projA", "outputPath": "outFile", "validationLibrary": "zod", "excludePatterns": "target/**", "typeMappings": ["x"], "includePatterns": 7}]
    jobs = []
    flag_keys = [("p", "projB"), ("o", "outFlag"), ("v", "none"), ("verbose", True), ("force", True)]
    for mask in range(32):
        flags = {k: v for i, (k, v) in enumerate(flag_keys) if mask >> i & 1}
        for f in files:
            if tier != "thorough" and (mask % 3 == 2) and f not in (files[1], files[3], files[4]):
                continue
            jobs.append((flags, f, ctx["tables"], ("plain", "escaped", "pretty", "reversed")[len(jobs) % 4]))
    # a flag whose value is spelled exactly like the built-in default is still a flag
    for f in (files[1], files[2], files[5]):
        jobs.append(({"o": "./src/generated"}, f, ctx["tables"]))
        jobs.append(({"p": "./src-tauri", "o": "./src/generated", "v": "none"}, f, ctx["tables"]))
        jobs.append(({"p": "./src-tauri"}, f, ctx["tables"]))
    # the document found in the other two places the tool looks in (./src-tauri, the parent directory)
    for where in ("src-tauri", "parent"):
        for mask in (0, 1, 2, 3, 7, 31):
            flags = {k: v for i, (k, v) in enumerate(flag_keys) if mask >> i & 1}
            for f in (files[1], files[2], files[5]):
                jobs.append((flags, f, ctx["tables"], "plain", where))
    # every arrangement of {no file, not JSON, no typegen entry, block A, block B} over the three places (quick: those with a
    # readable document, one flag set each; thorough: all 125 x 3 flag sets): the first readable document decides
    blockA = {"projectPath": "projA", "outputPath": "outFile", "validationLibrary": "zod"}
    blockB = {"projectPath": "projB", "outputPath": "outOther", "validationLibrary": "none", "force": True}
    kinds = [None, "unreadable", "noblock", blockA, blockB]
    k = 0
    for a in kinds:
        for b in kinds:
            for c in kinds:
                for fl in ({}, {"o": "outFlag"}, {"p": "projB", "v": "none", "verbose": True}):
                    k += 1
                    if tier != "thorough" and (k % 3 != 0 or all(x is None for x in (a, b, c))):
                        continue
                    jobs.append((fl, None, ctx["tables"], "plain", "cwd", [a, b, c]))
    jobs.append(({"v": "yup", "p": "empty_proj"}, files[1], ctx["tables"]))
    jobs.append(({"p": "empty_proj"}, files[3], ctx["tables"]))
    jobs.append(({"v": "yup"}, files[1], ctx["tables"]))
    jobs.append(({"p": "nowhere"}, files[1], ctx["tables"]))
    out = list(POOL.map(lambda a: c19_resolve_case(*a), jobs))
    for lib in ("none", "zod", "yup", "Zod"):
        for pl in (None, {}, {"shell": {"open": True}}, "oops", [1]):
            out.append(c19_init_case(lib, pl))
    for k, o in enumerate(("tauri.conf.json", "./tauri.conf.json", "conf/tauri.conf.json", "./conf/tauri.conf.json", "src-tauri/tauri.conf.json", "conf/../tauri.conf.json")):
        out.append(c19_init_target_case(o, ("zod", "none")[k % 2]))
    for pa in ("notes.txt/src-tauri", "missing/dir", "x" * 300 + "/src-tauri"):
        for o in ("conf/tauri.conf.json", "typegen.json"):
            out.append(c19_init_badpath_case(pa, o))
    return out
