"""Generator of multi-file Tauri projects (as lists of item blocks per file) and of
semantics-preserving source transformations, for the process-level checks.
Every random choice derives from one integer seed (splitmix64)."""
import copy
import re


class Rng:
    def __init__(self, seed):
        self.s = (seed ^ 0x9E3779B97F4A7C15) & 0xFFFFFFFFFFFFFFFF

    def next(self):
        self.s = (self.s + 0x9E3779B97F4A7C15) & 0xFFFFFFFFFFFFFFFF
        z = self.s
        z = ((z ^ (z >> 30)) * 0xBF58476D1CE4E5B9) & 0xFFFFFFFFFFFFFFFF
        z = ((z ^ (z >> 27)) * 0x94D049BB133111EB) & 0xFFFFFFFFFFFFFFFF
        return z ^ (z >> 31)

    def below(self, n):
        return self.next() % n if n > 0 else 0

    def pick(self, xs):
        return xs[self.below(len(xs))]

    def chance(self, a, b):
        return self.below(b) < a

    def shuffle(self, xs):
        for i in range(len(xs) - 1, 0, -1):
            j = self.below(i + 1)
            xs[i], xs[j] = xs[j], xs[i]


HEADER = "use serde::{Deserialize, Serialize};\nuse std::collections::HashMap;\nuse tauri::{AppHandle, Emitter, State};\n"

PRIMS = ["String", "i32", "u64", "bool", "f64"]


def type_expr(rng, names, depth):
    """a CommaSafe, PrecSafe type expression over the given struct names"""
    if depth == 0 or rng.chance(1, 3):
        return rng.pick(names) if names and rng.chance(1, 2) else rng.pick(PRIMS)
    k = rng.below(5)
    inner = type_expr(rng, names, depth - 1)
    if k == 0:
        return "Option<%s>" % inner
    if k == 1:
        return "Vec<%s>" % (inner if not inner.startswith("Option<") else "String")
    if k == 2:
        return "HashMap<String, %s>" % inner
    if k == 3:
        return "Vec<%s>" % (inner if not inner.startswith("Option<") else "i32")
    return inner


def make_project(seed, nfiles, dup=False):
    """returns {'files': {relpath: [item blocks]}, 'meta': {...}}; blocks are complete top-level items"""
    rng = Rng(seed)
    files = {}
    type_names = []
    meta = {"commands": [], "types": [], "events": []}
    paths = []
    # layouts: distinct file names / the same file name in several directories (`users/commands.rs`, `orders/commands.rs`,
    # several `mod.rs`): the order of files with equal names must not depend on the process either
    layout = seed % 3
    for i in range(nfiles):
        if layout == 1 and nfiles > 1:
            paths.append("%scommands.rs" % ["", "users/", "orders/", "billing/", "admin/", "reports/", "x/y/"][i % 7])
        elif layout == 2 and nfiles > 1:
            paths.append(["jobs.rs", "jobs/worker.rs", "mod.rs", "users/mod.rs", "orders/mod.rs", "orders/handlers.rs", "users/handlers.rs", "billing/mod.rs", "z/mod.rs"][i % 9])
        else:
            d = ["", "commands/", "models/", "commands/nested/", "dist/", "node_modules/pkg/", "build/"][i % 7] if nfiles > 1 else ""
            paths.append("%sf%d.rs" % (d, i))
    # types first so that commands can reference types of any file
    decls = {p: [] for p in paths}
    ntypes = 2 + rng.below(2 * nfiles)
    for t in range(ntypes):
        name = "T%d%s" % (t, rng.pick(["Info", "Data", "Req", "State"]))
        p = rng.pick(paths)
        if rng.chance(1, 4):
            variants = ["V%d%s" % (k, rng.pick(["Alpha", "Beta", "Gamma"])) for k in range(2 + rng.below(3))]
            ra = rng.pick(["", '#[serde(rename_all = "camelCase")]\n', '#[serde(rename_all = "UPPERCASE")]\n'])
            block = "#[derive(Debug, Clone, Serialize, Deserialize)]\n%spub enum %s {\n%s}\n" % (
                ra, name, "".join("    %s,\n" % v for v in variants))
        else:
            nf = 1 + rng.below(4)
            ra = rng.pick(["", "", '#[serde(rename_all = "camelCase")]\n'])
            fields = []
            for k in range(nf):
                fname = rng.pick(["id", "user_name", "created_at", "count", "items", "meta_data", "flag"]) + str(k)
                fty = type_expr(rng, type_names[:], 2)   # only earlier types: acyclic
                attr = ""
                if rng.chance(1, 6):
                    attr = '    #[serde(rename = "renamed%d")]\n' % k
                elif rng.chance(1, 8) and fty == "String":
                    attr = '    #[validate(length(min = 1, max = 20, message = "bad %s"))]\n' % fname
                fields.append("%s    pub %s: %s,\n" % (attr, fname, fty))
            block = "#[derive(Debug, Clone, Serialize, Deserialize)]\n%spub struct %s {\n%s}\n" % (ra, name, "".join(fields))
        decls[p].append(block)
        type_names.append(name)
        meta["types"].append(name)
    # an aggregate whose name sorts *before* the types it depends on (dependency-first emission then has to order
    # several not-yet-visited dependencies: sensitive to the iteration order of the dependency set)
    if len(type_names) >= 2:
        deps = type_names[:]
        rng.shuffle(deps)
        deps = deps[:2 + rng.below(min(3, len(deps) - 1))]
        name = "Aggregate%d" % rng.below(10)
        fields = "".join("    pub part%d: %s,\n" % (k, d if k % 2 == 0 else "Vec<%s>" % d) for k, d in enumerate(deps))
        decls[rng.pick(paths)].append("#[derive(Debug, Clone, Serialize, Deserialize)]\npub struct %s {\n%s}\n" % (name, fields))
        type_names.append(name)
        meta["types"].append(name)
        agg = name
    else:
        agg = None
    ncmds = nfiles + 1 + rng.below(2 * nfiles)
    for c in range(ncmds):
        name = "%s_%s%d" % (rng.pick(["get", "set", "load", "save", "list"]), rng.pick(["user", "item", "config", "report"]), c)
        p = paths[c % nfiles] if c < nfiles else rng.pick(paths)
        params = []
        for k in range(rng.below(4)):
            params.append("%s%d: %s" % (rng.pick(["id", "name", "filter", "payload"]), k, type_expr(rng, type_names, 2)))
        if rng.chance(1, 4):
            params.insert(0, "app: AppHandle")
        if rng.chance(1, 6):
            params.append("state: State<'_, AppState>")
        if rng.chance(1, 6):
            params.append("on_progress: tauri::ipc::Channel<%s>" % rng.pick(type_names + ["String"]))
        ret = type_expr(rng, type_names, 2)
        body = "    todo!()\n"
        if "app: AppHandle" in params and rng.chance(2, 3):
            ev = "%s-%s-%d" % (rng.pick(["user", "sync", "task"]), rng.pick(["updated", "done", "failed"]), c)
            pl = rng.pick(type_names)
            body = "    let payload = %s::default();\n    app.emit(\"%s\", &payload).ok();\n    todo!()\n" % (pl, ev)
            # payload typed through a struct expression would need fields; use a typed parameter instead
            body = "    app.emit(\"%s\", \"started\").ok();\n    todo!()\n" % ev
            meta["events"].append(ev)
        attr = rng.pick(["#[tauri::command]", "#[tauri::command]", "#[command]"])
        asy = "async " if rng.chance(1, 2) else ""
        block = "%s\npub %sfn %s(%s) -> Result<%s, String> {\n%s}\n" % (attr, asy, name, ", ".join(params), ret, body)
        decls[p].append(block)
        meta["commands"].append(name)
    # two variants of one command (the same name, cfg-gated, different signatures), not next to each other
    late_pair = None
    if seed % 3 == 1 and nfiles >= 2:
        pa, pb = paths[0], (paths[0] if seed % 6 == 1 else paths[-1])
        if pa == pb:
            # … or next to each other in one file (a reordering then separates them)
            late_pair = pa
        else:
            decls[pa].insert(0, "#[cfg(desktop)]\n#[tauri::command]\npub fn open_settings(tab: String) -> Result<(), String> {\n    todo!()\n}\n")
        if pa != pb:
            decls[pb].append("#[cfg(mobile)]\n#[tauri::command]\npub fn open_settings(tab: String, sheet: bool) -> Result<(), String> {\n    todo!()\n}\n")
        meta["commands"].append("open_settings")
    # the same serde type name defined in two files with different fields (one of the definitions is used by a command)
    if dup and nfiles >= 2:
        pa, pb = paths[0], paths[-1]
        decls[pa].append("#[derive(Debug, Clone, Serialize, Deserialize)]\npub struct Settings {\n    pub volume: i32,\n}\n")
        decls[pb].append("#[derive(Debug, Clone, Serialize, Deserialize)]\npub struct Settings {\n    pub width: u64,\n    pub height: u64,\n}\n")
        decls[rng.pick(paths)].append("#[tauri::command]\npub fn load_settings(id: i32) -> Result<Settings, String> {\n    todo!()\n}\n")
        meta["commands"].append("load_settings")
    if agg:
        decls[paths[0]].append("#[tauri::command]\npub fn load_aggregate(id: i32) -> Result<%s, String> {\n    todo!()\n}\n" % agg)
        meta["commands"].append("load_aggregate")
    # many reachable types with long non-ASCII names (whatever is logged about them in verbose mode gets long)
    if seed % 4 == 3:
        names = ["AÄÖÜäöüßéèêñçå%d" % i for i in range(4)] + ["Bäöü設定ßé%d" % i for i in range(4)] + ["設定項目番号記録%d" % i for i in range(8)] + ["Größe%dÄnderung" % i for i in range(6)]
        for n in names:
            decls[rng.pick(paths)].append("#[derive(Debug, Clone, Serialize, Deserialize)]\npub struct %s {\n    pub wert: u32,\n}\n" % n)
        decls[rng.pick(paths)].append("#[derive(Debug, Clone, Serialize, Deserialize)]\npub struct Sammlung {\n%s}\n" % "".join(
            "    pub f%d: %s,\n" % (i, n) for i, n in enumerate(names)))
        decls[rng.pick(paths)].append("#[tauri::command]\npub fn lade_sammlung(id: i32) -> Result<Sammlung, String> {\n    todo!()\n}\n")
        meta["commands"].append("lade_sammlung")
        # (a leading name of varying length shifts where any fixed byte offset falls in a listing of these names)
        pad = "A" + "a" * ((seed // 4) % 11)
        decls[rng.pick(paths)].append("#[derive(Debug, Clone, Serialize, Deserialize)]\npub struct %s {\n    pub n: u8,\n}\n" % pad)
        names = [pad] + names
        # … and commands whose own signatures name many of them
        for c0, chunk in enumerate((names[0:9], names[5:17], names[10:22])):
            decls[rng.pick(paths)].append("#[tauri::command]\npub fn speichere_%d(%s) -> Result<(), String> {\n    todo!()\n}\n" % (
                c0, ", ".join("p%d: %s" % (i, n) for i, n in enumerate(chunk))))
            meta["commands"].append("speichere_%d" % c0)
    # two reachable types whose names differ only in case, a type that is serialised by hand (no derive), and a field of a
    # type (`Duration`) that only a *qualified* mapping key could name
    if seed % 2 == 1:
        decls[rng.pick(paths)].append("#[derive(Debug, Clone, Serialize, Deserialize)]\npub struct UserId {\n    pub value: u64,\n}\n")
        decls[rng.pick(paths)].append("#[derive(Debug, Clone, Serialize, Deserialize)]\npub struct UserID {\n    pub raw: String,\n    pub elapsed: Duration,\n}\n")
        decls[rng.pick(paths)].append("pub struct ManualToken {\n    pub secret: String,\n}\n")
        decls[rng.pick(paths)].append("#[tauri::command]\npub fn resolve_ids(a: UserId, b: UserID) -> Result<ManualToken, String> {\n    todo!()\n}\n")
        meta["commands"].append("resolve_ids")
    # helper functions (no command attribute) that emit events: events are discovered in every function of every file
    for h in range(1 + rng.below(2)):
        ev = "helper-%s-%d" % (rng.pick(["ping", "tick", "done"]), h)
        decls[rng.pick(paths)].append("pub fn notify_helper_%d(app: &AppHandle) {\n    app.emit(\"%s\", %s).ok();\n}\n" % (
            h, ev, rng.pick(['"x"', "1u32", "true"])))
        meta["events"].append(ev)
    if seed % 2 == 0:
        # a serde type that only occurs as the error type of a command's `Result`
        decls[rng.pick(paths)].append("#[derive(Debug, Clone, Serialize, Deserialize)]\npub struct AppFailure {\n    pub code: i32,\n    pub detail: Option<String>,\n}\n")
        decls[rng.pick(paths)].append("#[tauri::command]\npub fn fallible_op(level: u8) -> Result<u8, AppFailure> {\n    todo!()\n}\n")
        meta["commands"].append("fallible_op")
    if seed % 3 == 1:
        # a serde type whose name starts lower-case (`#[allow(non_camel_case_types)]` mirrors of C structs), used by a command
        decls[rng.pick(paths)].append("#[allow(non_camel_case_types)]\n#[derive(Debug, Clone, Serialize, Deserialize)]\npub struct ipc_stats {\n    pub sent: u64,\n    pub dropped: u64,\n}\n")
        decls[rng.pick(paths)].append("#[tauri::command]\npub fn read_ipc_stats(reset: bool) -> Result<ipc_stats, String> {\n    todo!()\n}\n")
        meta["commands"].append("read_ipc_stats")
    if type_names:
        # a helper with a declared return type next to the function that emits its result (two items: they can be moved
        # apart; the payload of a call is not typed from the callee's signature wherever that lives)
        hp = rng.pick(paths)
        tn = rng.pick(type_names)
        decls[hp].append("pub fn build_progress_%d(done: u32, total: u32) -> %s {\n    todo!()\n}\n" % (seed % 7, tn))
        decls[hp].append("pub fn report_progress_%d(app: &AppHandle) {\n    app.emit(\"built-progress\", build_progress_%d(0, 10)).ok();\n}\n" % (seed % 7, seed % 7))
        meta["events"].append("built-progress")
    # a helper that emits two events one after the other (a formatter may put both statements on one line)
    decls[rng.pick(paths)].append("pub fn announce_pair(app: &AppHandle) {\n    app.emit(\"pair-first\", 1u8).ok();\n    app.emit(\"pair-second\", true).ok();\n}\n")
    meta["events"] += ["pair-first", "pair-second"]
    if layout == 2 and nfiles >= 2:
        # events from a file and from the directory of the same stem (`jobs.rs`, `jobs/worker.rs`: path order and string
        # order of the two differ)
        decls[paths[0]].append("pub fn announce_top(app: &AppHandle) {\n    app.emit(\"jobs-top\", 1u32).ok();\n}\n")
        decls[paths[1]].append("pub fn announce_worker(app: &AppHandle) {\n    app.emit(\"jobs-worker\", true).ok();\n}\n")
        meta["events"] += ["jobs-top", "jobs-worker"]
    if late_pair is not None:
        decls[late_pair].append("#[cfg(desktop)]\n#[tauri::command]\npub fn open_settings(tab: String) -> Result<(), String> {\n    todo!()\n}\n")
        decls[late_pair].append("#[cfg(mobile)]\n#[tauri::command]\npub fn open_settings(tab: String, sheet: bool) -> Result<(), String> {\n    todo!()\n}\n")
    if seed % 5 == 0 and nfiles >= 2:
        # two event names that differ only in `-` / `_`, emitted from different files
        decls[paths[0]].append("pub fn sync_a(app: &AppHandle) {\n    app.emit(\"sync-finished\", 1u8).ok();\n}\n")
        decls[paths[-1]].append("pub fn sync_b(app: &AppHandle) {\n    app.emit(\"sync_finished\", \"done\").ok();\n}\n")
        meta["events"] += ["sync-finished", "sync_finished"]
    for p in paths:
        files[p] = decls[p]
    return {"files": files, "meta": meta, "header": HEADER}


def render(project):
    """{relpath: text}"""
    out = {}
    for p, blocks in project["files"].items():
        out[p] = project["header"] + "\n" + "\n".join(blocks)
    return out


NOISE = [
    "// just a comment\n",
    "/// Serialized by hand: no `#[derive(Serialize, Deserialize)]` here on purpose.\n",
    "// #[derive(Serialize)]\n/* #[tauri::command] */\n",
    "#[poise::command(slash_command)]\nasync fn bot_ping_%d(ctx: Context<'_>) -> Result<(), Error> {\n    Ok(())\n}\n",
    "#[clap::command]\npub fn cli_entry_%d() {}\n#[my::tauri_command]\npub fn not_one_%d() {}\n",
    "/// doc comment on a helper\nfn helper_%d() -> i32 {\n    42\n}\n",
    "pub struct NotSerde%d {\n    pub x: i32,\n}\n",
    "const LIMIT_%d: usize = 10;\n",
    "\n\n",
    "#[derive(Debug)]\npub enum Plain%d {\n    A,\n    B,\n}\n",
    "impl NotSerde%d {\n    pub fn new() -> Self {\n        Self { x: 0 }\n    }\n}\n",
]


def add_noise(project, seed):
    rng = Rng(seed)
    p2 = copy.deepcopy(project)
    k = 0
    for path, blocks in p2["files"].items():
        nb = []
        for b in blocks:
            if b.startswith("pub struct") and "derive" not in b:
                # a doc comment *on* a type that is not a serde type, mentioning the derive it does not have
                nb.append("/// Serialized by hand: `#[derive(Serialize, Deserialize)]` is deliberately absent.\n" + b)
                continue
            if rng.chance(1, 2):
                t = rng.pick(NOISE)
                k += 1
                nb.append(t.replace("%d", str(k)))
            m = re.search(r"^pub (struct|enum) (\w+) \{", b, re.M)
            if m and b.startswith("#[derive(") and "Serialize" in b and rng.chance(1, 3):
                # a twin of a serde type for another build configuration, without the derive (no serde item), placed first
                nb.append("#[cfg(feature = \"mock\")]\npub struct %s {\n    pub mocked: bool,\n}\n" % m.group(2))
            nb.append(b)
        p2["files"][path] = nb
    # an extra file with no commands and no serde types
    p2["files"]["util/noise.rs"] = ["pub fn unrelated() {}\n", "pub struct Unused {\n    a: u8,\n}\n"]
    # plain functions carrying the names of commands (backend helpers the thin command wrappers delegate to), in files
    # that sort before and after every other file
    names = p2["meta"]["commands"]
    helpers = ["pub fn %s(conn: &Connection, limit: u32) -> u32 {\n    limit\n}\n" % n for n in names]
    p2["files"]["aaa_backend/helpers.rs"] = helpers[0::2] or ["pub fn none_a() {}\n"]
    p2["files"]["zzz_backend/helpers.rs"] = helpers[1::2] or ["pub fn none_z() {}\n"]
    return p2


def reorder(project, seed):
    rng = Rng(seed)
    p2 = copy.deepcopy(project)
    for path in p2["files"]:
        rng.shuffle(p2["files"][path])
    return p2


def move_items(project, seed):
    """move random items to other files; merge the last file into the first"""
    rng = Rng(seed)
    p2 = copy.deepcopy(project)
    paths = sorted(p2["files"])
    if len(paths) < 2:
        return p2
    for path in paths:
        keep = []
        for b in p2["files"][path]:
            if rng.chance(1, 3):
                p2["files"][rng.pick(paths)].append(b)
            else:
                keep.append(b)
        p2["files"][path] = keep
    last = paths[-1]
    p2["files"][paths[0]].extend(p2["files"].pop(last))
    return p2


def rotate(project, seed):
    """in every file the last item moves to the front (what was adjacent at the end is no longer adjacent)"""
    p2 = copy.deepcopy(project)
    for path, blocks in p2["files"].items():
        if len(blocks) >= 3:
            p2["files"][path] = blocks[-1:] + blocks[:-1]
    return p2


def move_to_odd_dirs(project, seed):
    """every item of the first file moves to `dist/moved.rs`, of the second to `node_modules/pkg/moved.rs`, of the third to
    `build/out/moved.rs` (directory names some tools skip; this one only skips `target` and `.git`)"""
    p2 = copy.deepcopy(project)
    paths = sorted(p2["files"])
    for src, dst in zip(paths, ["dist/moved.rs", "node_modules/pkg/moved.rs", "build/out/moved.rs", ".cache/moved.rs", "vendor/x/moved.rs"]):
        p2["files"][dst] = p2["files"].pop(src)
    return p2


def split_helpers(project, seed):
    """every item that is not a command goes into a file of its own (files without any command appear)"""
    p2 = copy.deepcopy(project)
    k = 0
    for path in sorted(p2["files"]):
        keep = []
        for b in p2["files"][path]:
            if "#[tauri::command]" in b or "#[command]" in b:
                keep.append(b)
            else:
                k += 1
                p2["files"]["split/part%d.rs" % k] = [b]
        p2["files"][path] = keep
    return p2
