"""Process-level plumbing: sandbox directories, the real CLI binary, the build-script path,
filesystem snapshots."""
import hashlib
import os
import re
import shutil
import subprocess
import tempfile

from . import core

TS_LINE = re.compile(r"^ \* Generated at: .*$", re.M)


def sandbox(name):
    os.makedirs(core.WORK, exist_ok=True)
    d = tempfile.mkdtemp(prefix=name + ".", dir=core.WORK)
    return d


def cleanup(d):
    # a file system an interrupted fault case left mounted inside the sandbox
    try:
        with open("/proc/mounts") as fh:
            mps = [ln.split()[1] for ln in fh if len(ln.split()) > 1 and ln.split()[1].startswith(d + "/")]
        for m in sorted(mps, reverse=True):
            subprocess.run(["umount", "-l", m], stdout=subprocess.DEVNULL, stderr=subprocess.DEVNULL)
    except Exception:
        pass
    shutil.rmtree(d, ignore_errors=True)


def write_files(root, files):
    for rel, text in files.items():
        p = os.path.join(root, rel)
        os.makedirs(os.path.dirname(p), exist_ok=True)
        with open(p, "w", encoding="utf-8") as fh:
            fh.write(text)


def _limit(fsize):
    """preexec hook: the process may not grow any file beyond `fsize` bytes (the kernel kills it with SIGXFSZ in the
    middle of the write that would: a crash point, not an error return).  A negative value -n means: limit n with the
    signal ignored, so that the write is *partially accepted* and then fails with EFBIG (a short write)."""
    if fsize is None:
        return None

    def hook():
        import resource
        import signal
        n = fsize
        if n < 0:
            n = -n
            signal.signal(signal.SIGXFSZ, signal.SIG_IGN)
        resource.setrlimit(resource.RLIMIT_FSIZE, (n, n))
    return hook


def run_cli(cwd, args, timeout=120, fsize=None):
    """cargo-tauri-typegen is a cargo subcommand: argv[1] is `tauri-typegen`"""
    p = subprocess.run([core.CLI, "tauri-typegen"] + args, cwd=cwd, stdout=subprocess.PIPE, stderr=subprocess.PIPE,
                       timeout=timeout, env=core.ENV, preexec_fn=_limit(fsize))
    return p.returncode, p.stdout.decode(errors="replace"), p.stderr.decode(errors="replace")


def run_build(cwd, timeout=120, fsize=None, extra_env=None):
    """BuildSystem::generate_at_build_time() in a fresh process with the given current directory"""
    env = dict(core.ENV, **extra_env) if extra_env else core.ENV
    p = subprocess.run([core.TGH, "buildpath"], cwd=cwd, stdout=subprocess.PIPE, stderr=subprocess.PIPE,
                       timeout=timeout, env=env, preexec_fn=_limit(fsize))
    return p.returncode, p.stdout.decode(errors="replace"), p.stderr.decode(errors="replace")


def norm(text):
    return TS_LINE.sub(" * Generated at: <ts>", text)


def read_out(d):
    """{name: normalised text} of the regular files directly in d"""
    out = {}
    if not os.path.isdir(d):
        return out
    for n in sorted(os.listdir(d)):
        p = os.path.join(d, n)
        if os.path.isfile(p) and not os.path.islink(p):
            with open(p, "rb") as fh:
                out[n] = norm(fh.read().decode(errors="replace"))
    return out


def snapshot(root):
    """recursive {relpath: (sha1, mtime_ns)} for files, {relpath/: 'dir'} for directories"""
    snap = {}
    for dp, dn, fn in os.walk(root):
        for d in dn:
            snap[os.path.relpath(os.path.join(dp, d), root) + "/"] = ("dir", 0)
        for f in fn:
            p = os.path.join(dp, f)
            if os.path.islink(p):
                # never read through a link (an injected fault may point at /dev/full)
                snap[os.path.relpath(p, root)] = ("symlink:" + os.readlink(p), 0)
                continue
            try:
                with open(p, "rb") as fh:
                    h = hashlib.sha1(fh.read()).hexdigest()
                snap[os.path.relpath(p, root)] = (h, os.stat(p).st_mtime_ns)
            except OSError:
                snap[os.path.relpath(p, root)] = ("unreadable", 0)
    return snap


def blocks(text):
    """declaration blocks of a generated file: maximal runs of non-blank lines, header comment dropped"""
    bs = [b.strip("\n") for b in re.split(r"\n\s*\n", text) if b.strip()]
    return [b for b in bs if not b.startswith("/**\n * Auto-generated")]
