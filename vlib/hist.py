"""Histories of edits / runs / faults around the real binary (C08, C14, C17) and their abstract
description for the Lean run model (driver op `history`)."""
import json
import os
import shutil
import time

from . import core, proc

# edit classes: (aspect, is_config, hash struct, field that must be hashed for the edit to defeat the cache)
EDIT_CLASSES = [
    ("cmd_name", False, "CommandHashData", "name"),
    ("param_name", False, "ParameterHashData", "name"),
    ("param_type", False, "ParameterHashData", "rust_type"),
    ("ret_type", False, "CommandHashData", "return_type"),
    ("channel", False, "ChannelHashData", "message_type"),
    ("struct_field_type", False, "FieldHashData", "rust_type"),
    ("struct_field_add", False, "StructHashData", "fields"),
    ("field_skip", False, "StructHashData", "fields"),
    ("enum_variant", False, "StructHashData", "fields"),
    ("field_serde_rename", False, "FieldHashData", "serde_rename"),
    ("variant_rename", False, "FieldHashData", "serde_rename"),
    ("struct_rename_all", False, "StructHashData", "serde_rename_all"),
    ("cmd_rename_all", False, "CommandHashData", "serde_rename_all"),
    ("param_serde_rename", False, "ParameterHashData", "serde_rename"),
    ("validator", False, "FieldHashData", "validator_attributes"),
    ("event_name", False, "EventHashData", "event_name"),
    ("event_payload", False, "EventHashData", "payload_type"),
    ("type_mappings", True, "ConfigHashData", "type_mappings"),
    ("param_case", True, "ConfigHashData", "default_parameter_case"),
    ("field_case", True, "ConfigHashData", "default_field_case"),
    ("output_mode", True, "ConfigHashData", "validation_library"),
    ("visualize_deps", True, "ConfigHashData", "visualize_deps"),
    # order-only edits: the same items in another source order (the generated order follows the source order)
    # types that only an event payload reaches (directly / through a field of the payload type)
    ("event_only_field", False, "FieldHashData", "rust_type"),
    ("event_nested_field", False, "FieldHashData", "rust_type"),
    # a field that is not `pub` (emitted like any other), the visibility itself, `async` on the command
    ("private_field_type", False, "FieldHashData", "rust_type"),
    ("field_visibility", False, "FieldHashData", "is_public"),
    ("cmd_async", False, "CommandHashData", "is_async"),
    # attributes the tool does not read today: editing them changes nothing that is generated (if one of them ever starts
    # to matter it has to enter the key as well)
    # a whole source file (with a command) appears / disappears; the element type of an array-typed parameter (rendered
    # `unknown` whatever the element: a silent edit today)
    ("param_becomes_channel", False, "CommandHashData", "channels"),
    ("extra_file", False, "CommandHashData", "name"),
    ("array_param_elem", False, "ParameterHashData", "array_element"),
    ("event_file", False, "EventHashData", "file_path"),
    ("channel_serde_rename", False, "ChannelHashData", "serde_rename"),
    ("field_serde_default", False, "FieldHashData", "serde_default"),
    # the Rust spelling of a parameter / return type whose TypeScript is the same (the dependency visualisation prints the
    # Rust spelling); the naming rule of a command that only has channels
    ("param_int_width", False, "ParameterHashData", "rust_type"),
    ("ret_int_width", False, "CommandHashData", "return_type"),
    ("chan_cmd_rename_all", False, "CommandHashData", "serde_rename_all"),
    # a type so far only in the error position of a `Result` starts being emitted; a member-less type changes its kind
    ("emit_error_type", False, "EventHashData", "payload_type"),
    ("unit_kind", False, "StructHashData", "is_enum"),
    # what the tool does not read today (the payload type of a tuple variant): editing it changes nothing that is generated -
    # and if it ever starts to matter it has to enter the key as well
    ("variant_payload", False, "FieldHashData", "variant_payload_type"),
    # an attribute the tool does not read (`#[deprecated]` on a command) moves the command to another line: nothing in the
    # bindings changes, but the dependency visualisation prints `file:line` of every command (fix aa6995a: the line is hashed)
    ("cmd_deprecated", False, "CommandHashData", "line_number"),
    ("cmd_order", False, "CommandHashData", "name"),
    ("param_order", False, "ParameterHashData", "name"),
    ("field_order", False, "FieldHashData", "name"),
    ("variant_order", False, "FieldHashData", "name"),
]
ASPECTS = [e[0] for e in EDIT_CLASSES]
FILE_NAMES = ["types.ts", "commands.ts", "events.ts", "index.ts", "dependency-graph.txt", "dependency-graph.dot"]


def hashed_aspects(tables):
    fields = {s["name"]: set(s["fields"]) for s in tables["hash_structs"]}
    return [a for a, _, st, f in EDIT_CLASSES if f in fields.get(st, set())]


def alt(v, options):
    return options[v % len(options)]


def render_sources(st):
    g = lambda a: st.get(a, 0)
    field_attr = alt(g("field_serde_rename"), ["", '    #[serde(rename = "displayName")]\n', '    #[serde(rename = "label")]\n', '    #[serde(rename = "user_name")]\n', '    #[serde(rename = "\u00e9tat")]\n', '    #[serde(rename = "\u01e9tat")]\n'])
    validator = alt(g("validator"), ["", '    #[validate(length(min = 1, max = 20, message = "short"))]\n',
                                     '    #[validate(length(min = 2, max = 30, message = "other text"))]\n'])
    rename_all = alt(g("struct_rename_all"), ["", '#[serde(rename_all = "camelCase")]\n', '#[serde(rename_all = "SCREAMING_SNAKE_CASE")]\n'])
    fty = alt(g("struct_field_type"), ["String", "Option<String>", "Vec<String>"])
    skip = alt(g("field_skip"), ["", "    #[serde(skip)]\n"])
    extra = "".join("    pub extra_%d: i32,\n" % i for i in range(g("struct_field_add") % 3))
    variant = "".join("    Extra%d,\n" % i for i in range(g("enum_variant") % 3)) + "    Carried(%s),\n" % alt(g("variant_payload"), ["u32", "String", "Vec<u8>"])
    vren = alt(g("variant_rename"), ["", '    #[serde(rename = "on")]\n', '    #[serde(rename = "enabled")]\n'])
    cmd = alt(g("cmd_name"), ["get_user", "fetch_user", "load_user"])
    cra = alt(g("cmd_rename_all"), ["", '#[serde(rename_all = "snake_case")]\n', '#[serde(rename_all = "PascalCase")]\n'])
    pattr = alt(g("param_serde_rename"), ["", '#[serde(rename = "theId")] ', '#[serde(rename = "ident")] '])
    pname = alt(g("param_name"), ["user_id", "account_id", "person_id"])
    pty = alt(g("param_type"), ["i32", "String", "Vec<i32>"])
    ret = alt(g("ret_type"), ["User", "Vec<User>", "Option<User>"])
    chan = alt(g("channel"), ["String", "Status", "i32"])
    evname = alt(g("event_name"), ["user-updated", "user-changed", "profile-updated"])
    evpay = alt(g("event_payload"), ["user: User", "user: Status", "user: UserId"])
    tail_fields = "    pub tag: UserId,\n    pub status: Status,\n" if g("field_order") % 2 == 0 else "    pub status: Status,\n    pub tag: UserId,\n"
    variants2 = "    Active,\n    Inactive,\n" if g("variant_order") % 2 == 0 else "    Inactive,\n    Active,\n"
    src = (
        "use serde::{Deserialize, Serialize};\n\n"
        "#[derive(Debug, Clone, Serialize, Deserialize)]\n%spub struct User {\n%s%s    pub user_name: %s,\n%s    pub hidden_note: i32,\n    secret_level: %s,\n    %sshown_level: i32,\n%s    pub retries: u8,\n%s%s}\n\n"
        % (rename_all, field_attr, validator, fty, skip, alt(g("private_field_type"), ["i32", "String", "Vec<bool>"]),
           alt(g("field_visibility"), ["pub ", "", "pub(crate) "]), alt(g("field_serde_default"), ["", "    #[serde(default)]\n", '    #[serde(default = "three")]\n']), extra, tail_fields)
        + "#[derive(Debug, Clone, Serialize, Deserialize)]\npub enum Status {\n%s%s%s}\n\n" % (vren, variants2, variant)
    )
    audit_ty = alt(g("event_only_field"), ["String", "i32", "Vec<String>"])
    detail_ty = alt(g("event_nested_field"), ["bool", "u64", "Option<String>"])
    src += (
        "#[derive(Debug, Clone, Default, Serialize, Deserialize)]\npub struct AuditInfo {\n    pub note: %s,\n    pub detail: AuditDetail,\n}\n\n"
        "#[derive(Debug, Clone, Default, Serialize, Deserialize)]\npub struct AuditDetail {\n    pub flag: %s,\n}\n\n" % (audit_ty, detail_ty)
    )
    p1 = "%s%s: %s" % (pattr, pname, pty)
    p2 = alt(g("param_becomes_channel"), ["verbose_flag: bool, sink: Status", "verbose_flag: bool, sink: Channel<Status>"])
    plist = "%s, %s" % ((p1, p2) if g("param_order") % 2 == 0 else (p2, p1))
    main_cmd = (
        "#[tauri::command]\n%spub %sfn %s(%s, %son_event: Channel<%s>) -> Result<%s, String> {\n    todo!()\n}\n\n"
        % (cra, alt(g("cmd_async"), ["", "async "]), cmd, plist,
           alt(g("channel_serde_rename"), ["", '#[serde(rename = "onProgress")] ', '#[serde(rename = "progressSink")] ']), chan, ret)
    )
    if not st.get("_noevents", False):
        second = ("#[tauri::command]\npub fn notify(app: AppHandle, %s) -> Result<(), String> {\n    app.emit(\"%s\", &user).ok();\n"
                  "    app.emit(\"audit-logged\", AuditInfo::default()).ok();\n    let audit = AuditInfo::default();\n    app.emit(\"audit-stored\", AuditInfo { note: audit.note, detail: audit.detail }).ok();\n    Ok(())\n}\n\n" % (evpay, evname))
    else:
        second = "#[tauri::command]\npub fn notify(app: AppHandle) -> Result<(), String> {\n    Ok(())\n}\n\n"
    cmds = "use tauri::{AppHandle, Emitter};\nuse tauri::ipc::Channel;\n\n" + (main_cmd + second if g("cmd_order") % 2 == 0 else second + main_cmd)
    if st.get("_nocommands", False):
        cmds = "pub fn helper() {}\n"
    files = {"src/models.rs": src, "src/commands.rs": cmds, "src/lib.rs": "mod models;\nmod commands;\n"}
    files["src/keys.rs"] = "#[tauri::command]\npub fn import_key(key: %s, label: String) -> bool {\n    true\n}\n" % alt(
        g("array_param_elem"), ["[u8; 4]", "[String; 4]", "[bool; 2]"])
    dup = ['    app.emit("dup-event", AuditDetail::default()).ok();\n', '    app.emit("dup-event", AuditInfo::default()).ok();\n']
    files["src/errors.rs"] = (
        "use serde::{Deserialize, Serialize};\nuse tauri::Emitter;\nuse crate::models::*;\n\n"
        "#[derive(Debug, Clone, Default, Serialize, Deserialize)]\npub struct AppError {\n    pub code: i32,\n    pub reason: String,\n}\n\n"
        "#[derive(Debug, Clone, Serialize, Deserialize)]\n%s\n\n"
        "%s#[tauri::command]\npub fn risky(app: tauri::AppHandle, token: Token) -> Result<u8, AppError> {\n%s%s    Ok(1)\n}\n"
        % (alt(g("unit_kind"), ["pub struct Token;", "pub enum Token {}", "pub struct Token {}"]),
           alt(g("cmd_deprecated"), ["", "#[deprecated]\n", '#[deprecated(note = "use `safer` instead")]\n', '#[deprecated = "going away"]\n']),
           alt(g("emit_error_type"), ["", '    app.emit("risky-failed", AppError { code: 1, reason: String::new() }).ok();\n']),
           "" if st.get("_noevents", False) else "".join(dup)))
    files["src/stream.rs"] = (
        "use tauri::ipc::Channel;\n\n#[tauri::command]\n%spub fn stream_only(app: tauri::AppHandle, on_progress: Channel<i32>, on_done_signal: Channel<bool>) {}\n\n"
        "#[tauri::command]\npub fn widths(count: %s, names: &str) -> %s {\n    todo!()\n}\n"
        % (alt(g("chan_cmd_rename_all"), ["", '#[serde(rename_all = "snake_case")]\n', '#[serde(rename_all = "camelCase")]\n', '#[serde(rename_all = "PascalCase")]\n']),
           alt(g("param_int_width"), ["u32", "u64", "usize"]), alt(g("ret_int_width"), ["Vec<i16>", "Vec<i64>", "Vec<f32>"])))
    if not st.get("_noevents", False):
        # a helper (no command) holding the only emission of one event: the file it lives in is nobody's business
        files["src/%s.rs" % alt(g("event_file"), ["notify", "notices", "nudge"])] = (
            "use tauri::Emitter;\n\npub fn tick(app: &tauri::AppHandle) {\n    app.emit(\"helper-tick\", 1u32).ok();\n}\n")
    if g("extra_file") % 2 == 1:
        files["src/bin/helper.rs"] = "#[tauri::command]\npub fn ping(target: String) -> String {\n    target\n}\n"
    if st.get("_nocommands", False):
        files.pop("src/keys.rs")
        files.pop("src/stream.rs")
        files.pop("src/errors.rs")
        files.pop("src/bin/helper.rs", None)
    return files


def render_config(st):
    g = lambda a: st.get(a, 0)
    cfg = {
        "projectPath": "src-tauri",
        "outputPath": "out",
        "validationLibrary": "zod" if g("output_mode") % 2 == 1 else "none",
        "visualizeDeps": g("visualize_deps") % 2 == 1,
    }
    tm = alt(g("type_mappings"), [{"UserId": "string"}, {"UserId": "number"}, {"UserId": "string", "Status": "string"}])
    cfg["typeMappings"] = tm
    full = dict(cfg)
    # from_tauri_config reads only a subset of keys; the naming cases are read from typegen.json (snake_case keys)
    return full, {
        "project_path": "src-tauri", "output_path": "out", "validation_library": cfg["validationLibrary"],
        "visualize_deps": cfg["visualizeDeps"], "type_mappings": tm,
        "default_parameter_case": alt(g("param_case"), ["camelCase", "snake_case", "PascalCase", "camel case"]),
        "default_field_case": alt(g("field_case"), ["snake_case", "snake-case", "camelCase", "PascalCase"]),
    }


class Sandbox:
    """A project directory driven through one history."""

    def __init__(self, name, build=False):
        self.root = proc.sandbox(name)
        self.build = build
        self.state = {}
        self.out = os.path.join(self.root, "out")
        self.sync()

    def sync(self):
        shutil.rmtree(os.path.join(self.root, "src-tauri"), ignore_errors=True)
        proc.write_files(os.path.join(self.root, "src-tauri"), render_sources(self.state))
        # every source file and directory carries one fixed, old modification time: an edit is visible in the *content* only
        # (checkouts, archive extraction and `touch -r` produce exactly that), so nothing may decide by time stamps
        for base, dirs, names in os.walk(os.path.join(self.root, "src-tauri")):
            for n in names + dirs:
                os.utime(os.path.join(base, n), (1577836800, 1577836800))
        os.utime(os.path.join(self.root, "src-tauri"), (1577836800, 1577836800))
        tauri_cfg, file_cfg = render_config(self.state)
        with open(os.path.join(self.root, "typegen.json"), "w") as fh:
            json.dump(file_cfg, fh)
        if self.build:
            # the build path discovers the project through tauri.conf.json / src-tauri and prefers typegen.json
            # only when the tauri config has no typegen block: keep tauri.conf.json without a block
            with open(os.path.join(self.root, "tauri.conf.json"), "w") as fh:
                json.dump({"productName": "demo"}, fh)

    def edit(self, aspect, delta=1):
        if aspect == "remove_commands":
            self.state["_nocommands"] = not self.state.get("_nocommands", False)
        elif aspect == "toggle_events":
            self.state["_noevents"] = not self.state.get("_noevents", False)
        else:
            self.state[aspect] = self.state.get(aspect, 0) + delta
        self.sync()

    def obstacle(self, fault, kind=None):
        """make op number `fault` of the plan fail; returns an undo closure"""
        names = self.plan_names()
        if kind == "immcache":
            # the cache record can be neither removed nor rewritten (immutable file): the invalidation step fails
            import subprocess
            cp = os.path.join(self.out, ".typecache")
            if os.path.isfile(cp) and subprocess.run(["chattr", "+i", cp], stdout=subprocess.DEVNULL, stderr=subprocess.DEVNULL).returncode == 0:
                return lambda: subprocess.run(["chattr", "-i", cp], stdout=subprocess.DEVNULL, stderr=subprocess.DEVNULL)
            return lambda: None
        if kind == "devfull" and fault >= 1:
            # the file can be opened but not written: a symlink to /dev/full (ENOSPC on write / flush)
            target = os.path.join(self.out, names[fault - 1])
            os.makedirs(self.out, exist_ok=True)
            saved = None
            if os.path.lexists(target):
                saved = target + ".saved"
                os.rename(target, saved)
            os.symlink("/dev/full", target)

            def undo_full():
                os.remove(target)
                if saved:
                    os.rename(saved, target)
            return undo_full
        if kind == "rofs":
            # the output directory sits on a file system that is (re)mounted read-only: every write and removal fails
            import subprocess
            os.makedirs(self.out, exist_ok=True)
            keep = {}
            for n in os.listdir(self.out):
                if os.path.isfile(os.path.join(self.out, n)):
                    with open(os.path.join(self.out, n), "rb") as fh:
                        keep[n] = fh.read()
            if subprocess.run(["mount", "-t", "tmpfs", "-o", "size=8m", "tmpfs", self.out], stdout=subprocess.DEVNULL, stderr=subprocess.DEVNULL).returncode == 0:
                for n, t in keep.items():
                    with open(os.path.join(self.out, n), "wb") as fh:
                        fh.write(t)
                subprocess.run(["mount", "-o", "remount,ro", self.out], stdout=subprocess.DEVNULL, stderr=subprocess.DEVNULL)
                return lambda: subprocess.run(["umount", "-l", self.out], stdout=subprocess.DEVNULL, stderr=subprocess.DEVNULL)
            fault = 0                  # no mounting here: the plain unusable-output-path obstacle instead
        if kind == "busy" and fault >= 1:
            # the file is the image of a running program: opening it for writing fails for as long as the program runs
            import subprocess
            target = os.path.join(self.out, names[fault - 1])
            os.makedirs(self.out, exist_ok=True)
            saved = None
            if os.path.lexists(target):
                saved = target + ".saved"
                os.rename(target, saved)
            shutil.copy("/bin/sleep", target)
            os.chmod(target, 0o755)
            child = subprocess.Popen([target, "60"], stdout=subprocess.DEVNULL, stderr=subprocess.DEVNULL)
            busy = False
            for _ in range(40):
                try:
                    open(target, "ab").close()
                    time.sleep(0.02)
                except OSError:
                    busy = True
                    break

            def undo_busy():
                child.kill()
                child.wait()
                os.remove(target)
                if saved:
                    os.rename(saved, target)
            if busy:
                return undo_busy
            undo_busy()             # cannot be produced here: the plain obstacle instead
        if fault == 0:
            # the output path is unusable: a regular file where the directory should be
            if os.path.isdir(self.out):
                saved = self.out + ".saved"
                os.rename(self.out, saved)
                open(self.out, "w").close()

                def undo():
                    os.remove(self.out)
                    os.rename(saved, self.out)
                return undo
            open(self.out, "w").close()
            return lambda: os.remove(self.out)
        target = os.path.join(self.out, names[fault - 1])
        os.makedirs(self.out, exist_ok=True)
        saved = None
        if os.path.isfile(target):
            saved = target + ".saved"
            os.rename(target, saved)
        os.mkdir(target)

        def undo():
            os.rmdir(target)
            if saved:
                os.rename(saved, target)
        return undo

    def plan_names(self):
        names = ["types.ts", "commands.ts"]
        if not self.state.get("_noevents", False):
            names.append("events.ts")
        names.append("index.ts")
        if self.state.get("visualize_deps", 0) % 2 == 1:
            names += ["dependency-graph.txt", "dependency-graph.dot"]
        return names

    def run(self, forced=False, fault=None, kind=None, leftover=None, path=None):
        # `path`: this run goes through the CLI ("cli") or the build script ("build") whatever the sandbox was made for
        # (histories that mix the two entry points over one output directory)
        use_build = self.build if path is None else (path == "build")
        undo = self.obstacle(fault, kind) if fault is not None else None
        undo_left = None
        if leftover and kind == "probe":
            # the write probe of the output manager cannot be created (a directory of its name is in the way); the binding
            # files themselves stay writable
            pd = os.path.join(self.out, ".write_test_generated")
            os.makedirs(pd, exist_ok=True)

            def undo_left():
                if os.path.isdir(pd):
                    os.rmdir(pd)
        elif leftover:
            # a stale file of a generated-looking name that cannot be removed (immutable)
            os.makedirs(self.out, exist_ok=True)
            lp = os.path.join(self.out, leftover)
            with open(lp, "w") as fh:
                fh.write("// stale\n")
            import subprocess
            imm = subprocess.run(["chattr", "+i", lp], stdout=subprocess.DEVNULL, stderr=subprocess.DEVNULL).returncode == 0

            def undo_left():
                subprocess.run(["chattr", "-i", lp], stdout=subprocess.DEVNULL, stderr=subprocess.DEVNULL)
                if os.path.lexists(lp):
                    os.remove(lp)
            if not imm:
                undo_left()
                undo_left = None
        before = proc.snapshot(self.out) if os.path.isdir(self.out) else {}
        if use_build:
            if forced:
                # force through the configuration file on the build path
                p = os.path.join(self.root, "typegen.json")
                cfg = json.load(open(p))
                cfg["force"] = True
                json.dump(cfg, open(p, "w"))
            os.makedirs(os.path.join(self.root, "cargo_out"), exist_ok=True)
            rc, so, se = proc.run_build(self.root, extra_env={"OUT_DIR": os.path.join(self.root, "cargo_out")} if path is not None else None)
            if forced:
                self.sync()
        else:
            args = ["generate", "-c", "typegen.json"] + (["--force"] if forced else [])
            rc, so, se = proc.run_cli(self.root, args)
        if undo:
            undo()
        if undo_left:
            undo_left()
        after = proc.snapshot(self.out) if os.path.isdir(self.out) else {}
        written = sorted(n for n in after if n in FILE_NAMES and after[n] != before.get(n))
        if rc != 0:
            action = "failed"
        elif "up to date" in so:
            action = "upToDate"
        elif "No Tauri commands found" in so:
            action = "noCommands"
        elif use_build:
            action = "noCommands" if self.state.get("_nocommands") else ("generated" if written else "upToDate")
        else:
            action = "generated"
        cache_ok = False
        cp = os.path.join(self.out, ".typecache")
        if os.path.isfile(cp):
            try:
                cache_ok = json.load(open(cp)).get("version") == 1
            except Exception:
                cache_ok = False
        present = [n for n in FILE_NAMES if os.path.isfile(os.path.join(self.out, n))]
        obs = {"res": "ok" if rc == 0 else "err", "action": action, "cache": cache_ok, "present": present,
               "written": written, "stdout_tail": so.strip().splitlines()[-1:] if so.strip() else [], "stderr": se[-300:]}
        if rc == 0:
            obs["current"], obs["stale"] = self.is_current()
        return obs

    def is_current(self):
        """C08 oracle on the implementation: every file a forced generation from the current sources and
        configuration writes exists with the same content (timestamp comment ignored)"""
        if self.state.get("_nocommands"):
            return True, []
        fresh = proc.sandbox("fresh")
        try:
            shutil.copytree(os.path.join(self.root, "src-tauri"), os.path.join(fresh, "src-tauri"))
            shutil.copy(os.path.join(self.root, "typegen.json"), os.path.join(fresh, "typegen.json"))
            rc, so, se = proc.run_cli(fresh, ["generate", "-c", "typegen.json", "--force"])
            want = proc.read_out(os.path.join(fresh, "out"))
            have = proc.read_out(self.out)
            stale = [n for n in want if n != ".typecache" and have.get(n) != want[n]]
            return (rc == 0 and not stale), stale
        finally:
            proc.cleanup(fresh)

    def delete(self, name):
        p = os.path.join(self.out, name)
        if os.path.isfile(p):
            os.remove(p)

    def close(self):
        if os.path.ismount(self.out):
            import subprocess
            subprocess.run(["umount", "-l", self.out], stdout=subprocess.DEVNULL, stderr=subprocess.DEVNULL)
        proc.cleanup(self.root)


def execute(steps, build=False, name="hist"):
    """run one history against the real binary; returns the list of run observations"""
    sb = Sandbox(name, build=build)
    obs = []
    try:
        for st in steps:
            if st["k"] == "edit":
                sb.edit(st["aspect"], st.get("delta", 1))
            elif st["k"] == "delete":
                sb.delete(st["file"])
            elif st["k"] == "run":
                obs.append(sb.run(forced=st.get("forced", False), fault=st.get("fault"), kind=st.get("kind"), leftover=st.get("leftover"), path=st.get("path")))
    finally:
        sb.close()
    return obs


def request(cid, steps, obs, hashed, tables, build=False):
    """the driver request for one executed history"""
    abstract = []
    state = {}
    for st in steps:
        s2 = dict(st)
        if st["k"] == "edit":
            s2["config"] = st["aspect"] in [e[0] for e in EDIT_CLASSES if e[1]]
            # an edit that leaves every rendered source and configuration byte unchanged (e.g. an event's name while
            # the events are switched off) is not an edit of the project: it is not shown to the model
            before = (render_sources(state), render_config(state))
            if st["aspect"] == "remove_commands":
                state["_nocommands"] = not state.get("_nocommands", False)
            elif st["aspect"] == "toggle_events":
                state["_noevents"] = not state.get("_noevents", False)
            else:
                state[st["aspect"]] = state.get(st["aspect"], 0) + st.get("delta", 1)
            if (render_sources(state), render_config(state)) == before:
                continue
            # ... and an edit of a type that only an event payload reaches changes no output while no event is emitted
            if st["aspect"] in ("event_only_field", "event_nested_field", "event_name", "event_payload") and state.get("_noevents", False):
                continue
        if st["k"] == "run" and st.get("kind") == "rofs":
            # a read-only file system is, to the model, the fault before the first operation: nothing can change
            s2["fault"] = 0
        abstract.append(s2)
    return {"id": cid, "op": "history",
            "h": core.hashlib.sha1(json.dumps([steps, build], sort_keys=True).encode()).hexdigest()[:16],
            "in": {"hashed": hashed, "steps": abstract, "events": True, "zod": False, "viz": False, "empty": False,
                   "build": build, "reserved": tables["generated_literals"]},
            "impl": {"obs": obs}, "meta": {"build": build}}
