"""Shared machinery of the /verif checks: builds, the harness|driver pipeline, the Lean audit,
verdicts (VIOLATION / KNOWN-FINDING), replays and evidence files."""
import hashlib
import json
import os
import re
import subprocess
import sys
import time

ROOT = os.path.dirname(os.path.dirname(os.path.abspath(__file__)))
LEAN = os.path.join(ROOT, "lean")
HARNESS = os.path.join(ROOT, "harness")
WORK = os.path.join(ROOT, ".work")
BUILD = os.path.join(ROOT, ".build")
REPO = os.environ.get("VERIF_REPO", "/repo")
TGH = os.path.join(HARNESS, "target", "debug", "tgh")
DRIVER = os.path.join(LEAN, ".lake", "build", "bin", "tgdriver")
CLI = os.path.join(BUILD, "repo-target", "debug", "cargo-tauri-typegen")
GUARD = "typegen_verif"
ALLOWED_AXIOMS = {"propext", "Classical.choice", "Quot.sound"}
FORBIDDEN = re.compile(r"\bsorry\b|\badmit\b|^axiom\s|native_decide|bv_decide|implemented_by|\bunsafe\s|maxHeartbeats\s+0", re.M)

ENV = dict(os.environ)
ENV["CARGO_NET_OFFLINE"] = "true"
ENV.setdefault("RUSTFLAGS", "--cfg " + GUARD)
ENV["RUST_BACKTRACE"] = "0"
ENV["VERIF_WORK"] = WORK


def log(*a):
    print(*a, file=sys.stderr, flush=True)


def sh(cmd, cwd=None, timeout=None, env=None, stdin=None):
    p = subprocess.run(cmd, cwd=cwd, env=env or ENV, stdout=subprocess.PIPE, stderr=subprocess.STDOUT,
                       timeout=timeout, stdin=stdin, text=True, errors="replace")
    return p.returncode, p.stdout


class BuildFailed(Exception):
    pass


def build_harness():
    """(Re)build the harness against /repo's working tree (path dependency)."""
    t = time.time()
    rc, out = sh(["cargo", "build", "--offline", "--quiet"], cwd=HARNESS, timeout=1800)
    if rc != 0:
        raise BuildFailed("harness/repo build failed:\n" + out[-4000:])
    return time.time() - t


def build_cli():
    """Build the real CLI binary from /repo's working tree into /verif/.build (never into /repo/target)."""
    t = time.time()
    os.makedirs(BUILD, exist_ok=True)
    rc, out = sh(["cargo", "build", "--offline", "--quiet", "--bin", "cargo-tauri-typegen",
                  "--manifest-path", os.path.join(REPO, "Cargo.toml"),
                  "--target-dir", os.path.join(BUILD, "repo-target")], timeout=1800)
    if rc != 0:
        raise BuildFailed("CLI build failed:\n" + out[-4000:])
    return time.time() - t


def tie_broken(pid, what, detail):
    """The correspondence cannot even be set up against the current source (the harness, which calls the crate's internal
    API, does not compile any more, or a decision table it re-reads has changed shape) while the crate itself builds: the
    property is no longer shown to hold on this tree.  Reported as a violation without a failing input; returns the exit
    status.  A tree that does not build at all is a machinery error instead (exit 2)."""
    try:
        build_cli()
    except BuildFailed as e:
        print("ERROR: /repo does not build: %s" % str(e)[-1500:])
        return 2
    p = write_replay(pid, {"correspondence": {"broken_at": what, "detail": str(detail)[-3000:]},
                           "note": "the crate builds, the correspondence harness / table extraction does not: the tie between model and code is broken"})
    write_evidence(pid, os.environ.get("VERIF_TIER", "quick"), int(os.environ.get("VERIF_SEED", "1")), "proof",
                   {"evaluations": 0, "distinct_nontrivial": 0, "obligations": 0, "discharged": 0, "samples": [],
                    "rule": "nothing was explored: the correspondence could not be set up (%s)" % what,
                    "explanation": str(detail)[-600:], "checker_cmd": "", "trusted_base": []}, [], 0.0, 1)
    print("VIOLATION property=%s replay=%s no-failing-input-found" % (pid, os.path.relpath(p, ROOT)))
    return 1


def lake_build(targets):
    """Returns (ok, output).  A failure here is a broken proof obligation (or a broken model)."""
    rc, out = sh(["lake", "build"] + targets, cwd=LEAN, timeout=3600)
    return rc == 0, out


def theorem_names(module):
    path = os.path.join(LEAN, module.replace(".", "/") + ".lean")
    src = open(path, encoding="utf-8").read()
    ns = re.findall(r"^namespace\s+(\S+)", src, re.M)
    prefix = ns[0] + "." if ns else ""
    return [prefix + n for n in re.findall(r"^theorem\s+(\S+)", src, re.M)]


def audit(pid, module):
    """#print axioms on every theorem of the property's file; returns list of (name, axioms, ok)."""
    names = theorem_names(module)
    os.makedirs(os.path.join(LEAN, "Audit"), exist_ok=True)
    f = os.path.join(LEAN, "Audit", pid + ".lean")
    with open(f, "w") as fh:
        fh.write("import %s\n" % module)
        for n in names:
            fh.write("#print axioms %s\n" % n)
    rc, out = sh(["lake", "env", "lean", f], cwd=LEAN, timeout=1800)
    res = []
    text = out.replace("\n  ", " ")
    for n in names:
        m = re.search(r"'%s' depends on axioms: \[([^\]]*)\]" % re.escape(n), text)
        if m:
            ax = [a.strip() for a in m.group(1).split(",") if a.strip()]
            res.append((n, ax, set(ax) <= ALLOWED_AXIOMS))
        elif re.search(r"'%s' does not depend on any axioms" % re.escape(n), text):
            res.append((n, [], True))
        else:
            res.append((n, ["<not checked: %s>" % out.strip()[-300:]], False))
    return res, "cd lean && lake build %s && lake env lean Audit/%s.lean" % (module, pid)


def strip_comments(src):
    src = re.sub(r"/-.*?-/", "", src, flags=re.S)
    return re.sub(r"--[^\n]*", "", src)


def forbidden_scan():
    hits = []
    for base in ("Typegen", "Driver"):
        for dp, _, fs in os.walk(os.path.join(LEAN, base)):
            for fn in fs:
                if fn.endswith(".lean"):
                    p = os.path.join(dp, fn)
                    for m in FORBIDDEN.finditer(strip_comments(open(p, encoding="utf-8").read())):
                        hits.append("%s: %s" % (os.path.relpath(p, ROOT), m.group(0).strip()))
    return hits


class HarnessAbort(Exception):
    def __init__(self, rc, case):
        Exception.__init__(self, "harness process died (rc %s)" % rc)
        self.rc = rc
        self.case = case


def pipeline(name, gen_cmd, stdin_path=None):
    """Run `gen_cmd | tgdriver`, keeping requests and responses in .work; returns (req_path, resp_path)."""
    os.makedirs(WORK, exist_ok=True)
    req = os.path.join(WORK, name + ".req.jsonl")
    resp = os.path.join(WORK, name + ".resp.jsonl")
    cur = os.path.join(WORK, name + ".current.json")
    if os.path.exists(cur):
        os.remove(cur)
    env = dict(ENV)
    env["TGH_CURRENT"] = cur
    env["TGH_OUT"] = req          # protocol lines go to the file; whatever the real code prints to stdout is dropped
    if True:
        stdin = open(stdin_path) if stdin_path else subprocess.DEVNULL
        p = subprocess.run(gen_cmd, stdout=subprocess.DEVNULL, stderr=subprocess.DEVNULL, env=env, stdin=stdin)
        if p.returncode != 0:
            case = None
            if os.path.exists(cur):
                try:
                    case = json.load(open(cur, encoding="utf-8"))
                except Exception:
                    case = None
            if case is not None:
                # the process died while running the real code on this case (abort / stack overflow / OOM)
                raise HarnessAbort(p.returncode, case)
            raise BuildFailed("generator failed: %s (rc %d)" % (" ".join(gen_cmd), p.returncode))
    with open(req) as rq, open(resp, "w") as rs:
        p = subprocess.run([DRIVER], stdin=rq, stdout=rs, stderr=subprocess.PIPE, env=ENV)
        if p.returncode != 0:
            raise BuildFailed("driver failed rc %d: %s" % (p.returncode, p.stderr.decode(errors="replace")[-2000:]))
    return req, resp


class Tally:
    """Aggregates responses of the harness|driver pipeline."""

    def __init__(self, pid, known, only_oracles=None, excluded=None, oracle_known=None):
        self.pid = pid
        self.oracle_known = oracle_known or {}   # oracle -> the only classes that may explain its failure
        self.only_oracles = only_oracles
        self.excluded = set(excluded or [])   # classes outside the property's input domain
        self.excluded_hits = {}
        self.known = known          # list of known-finding dicts for this property
        self.known_classes = {k["class"] for k in known if k.get("status", "open") == "open"}
        self.evaluations = 0
        self.nontrivial = set()
        self.disagreements = []     # (stream, id)
        self.violations = []        # (stream, id, failed oracles)
        self.known_hits = {}        # class -> count
        self.model_oracle_fail = 0
        self.driver_errors = []
        self.samples = []
        self.by_op = {}
        self.class_hist = {}
        self.exh = {}
        self.streams = {}           # stream -> (req, resp)

    def consume(self, stream, req, resp, sample_every=None):
        self.streams[stream] = (req, resp)
        want = []
        with open(resp, encoding="utf-8") as fh:
            for line in fh:
                self.evaluations += 1
                fast = '"agree":true' in line and '"error"' not in line and line.count("false") == line.count('"nontrivial":false')
                r = None
                if not fast or (self.evaluations % 97 == 1):
                    r = json.loads(line)
                if fast:
                    # hot path: only the distinctness key and op are needed
                    m = re.search(r'"h":"([0-9a-f]+)"', line)
                    if '"nontrivial":true' in line and m:
                        self.nontrivial.add(m.group(1))
                    mo = re.search(r'"op":"([^"]+)"', line)
                    if mo:
                        self.by_op[mo.group(1)] = self.by_op.get(mo.group(1), 0) + 1
                    for c in re.findall(r'"class":\[([^\]]*)\]', line):
                        for x in c.split(","):
                            x = x.strip().strip('"')
                            if x:
                                self.class_hist[x] = self.class_hist.get(x, 0) + 1
                    if r is not None and len(self.samples) < 6:
                        want.append(r["id"])
                    continue
                op = r.get("op", "?")
                self.by_op[op] = self.by_op.get(op, 0) + 1
                if "error" in r:
                    self.driver_errors.append((stream, r.get("id"), r["error"]))
                    continue
                if r.get("nontrivial") and r.get("h"):
                    self.nontrivial.add(r["h"])
                classes = r.get("class", [])
                for c in classes:
                    self.class_hist[c] = self.class_hist.get(c, 0) + 1
                bad = [k for k, v in (r.get("oracle_impl") or {}).items() if v is False
                       and (self.only_oracles is None or k in self.only_oracles)]
                if any(v is False for v in (r.get("oracle_model") or {}).values()):
                    self.model_oracle_fail += 1
                if not r.get("agree", True):
                    self.disagreements.append((stream, r["id"]))
                if bad:
                    hit = [c for c in classes if c in self.known_classes]
                    out = [c for c in classes if c in self.excluded]
                    # an oracle with a restricted explanation set is only excused by those classes
                    unexplained = [k for k in bad if k in self.oracle_known
                                   and not (set(classes) & set(self.oracle_known[k]))]
                    if unexplained:
                        self.violations.append((stream, r["id"], unexplained))
                    elif hit:
                        for c in hit:
                            self.known_hits[c] = self.known_hits.get(c, 0) + 1
                    elif out:
                        for c in out:
                            self.excluded_hits[c] = self.excluded_hits.get(c, 0) + 1
                    else:
                        self.violations.append((stream, r["id"], bad))
                if len(self.samples) < 6:
                    want.append(r["id"])
        if want:
            want = set(want[:6])
            reqs = fetch(req, want)
            resps = fetch(resp, want)
            for i in sorted(want):
                if i in reqs and i in resps and len(self.samples) < 6:
                    self.samples.append({"request": trim(reqs[i]), "response": trim(resps[i])})

    def case(self, stream, cid):
        req, resp = self.streams[stream]
        rq = fetch(req, {cid}).get(cid)
        rs = fetch(resp, {cid}).get(cid)
        return rq, rs


def trim(v, n=600):
    s = json.dumps(v, ensure_ascii=False)
    return v if len(s) <= n else {"truncated": s[:n]}


def fetch(path, ids):
    out = {}
    with open(path, encoding="utf-8") as fh:
        for line in fh:
            m = re.search(r'"id":(\d+)', line)
            if m and int(m.group(1)) in ids:
                out[int(m.group(1))] = json.loads(line)
                if len(out) == len(ids):
                    break
    return out


def load_known(pid):
    path = os.path.join(ROOT, "known_findings.json")
    if not os.path.exists(path):
        return [], []
    doc = json.load(open(path))
    return ([k for k in doc.get("findings", []) if k["property"] == pid],
            [k for k in doc.get("fixed", []) if k.startswith("fixed: property=%s " % pid)])


def write_replay(pid, payload):
    d = os.path.join(ROOT, "replays", pid)
    os.makedirs(d, exist_ok=True)
    blob = json.dumps(payload, ensure_ascii=False, sort_keys=True)
    p = os.path.join(d, hashlib.sha1(blob.encode()).hexdigest()[:12] + ".json")
    with open(p, "w") as fh:
        fh.write(blob + "\n")
    return p


def write_evidence(pid, tier, seed, level, coverage, assumptions, wall, violations):
    os.makedirs(os.path.join(ROOT, "evidence"), exist_ok=True)
    ev = {"property_id": pid, "tier": tier, "seed": seed, "level": level, "coverage": coverage,
          "assumptions": assumptions, "wall_s": round(wall, 2), "violations": violations}
    with open(os.path.join(ROOT, "evidence", pid + ".json"), "w") as fh:
        json.dump(ev, fh, indent=1, ensure_ascii=False)
        fh.write("\n")
    return ev


def extract_tables():
    """tg-extract: re-read the tables from /repo/src (fails loudly when the expected shape is gone)"""
    env = dict(ENV)
    env["VERIF_REPO"] = REPO
    p = subprocess.run([TGH, "extract"], stdout=subprocess.PIPE, stderr=subprocess.PIPE, env=env, text=True)
    if p.returncode != 0:
        raise BuildFailed("tg-extract: " + p.stderr.strip())
    return json.loads(p.stdout)


def lean_str(s):
    return json.dumps(s, ensure_ascii=False)


def lean_list(xs):
    return "[" + ", ".join(lean_str(x) for x in xs) + "]"


def regen_tables(tables):
    """rewrite lean/Typegen/Generated/Tables.lean from the extracted tables (only when changed)"""
    d = os.path.join(LEAN, "Typegen", "Generated")
    os.makedirs(d, exist_ok=True)
    body = ["/-! GENERATED by `tgh extract` from /repo/src on every check run — do not edit. -/", "namespace Gen", ""]
    body.append("def hashStructs : List (String × List String) := [")
    body.append(",\n".join("  (%s, %s)" % (lean_str(s["name"]), lean_list(s["fields"])) for s in tables["hash_structs"]))
    body.append("]")
    for k, n in [("generated_literals", "generatedLiterals"), ("generated_prefixes", "generatedPrefixes"),
                 ("generated_infixes", "generatedInfixes"), ("generated_suffixes", "generatedSuffixes"),
                 ("write_probe", "writeProbe"), ("written_files", "writtenFiles"), ("cache_file", "cacheFile"),
                 ("viz_files", "vizFiles"), ("primitive_table", "primitiveTable")]:
        body.append("def %s : List String := %s" % (n, lean_list(tables[k])))
    body.append("def fnLits : List (String × List String) := [")
    body.append(",\n".join("  (%s, %s)" % (lean_str(f["fn"]), lean_list(f["lits"])) for f in tables.get("fn_literals", [])))
    body.append("]")
    for k, n in [("unicode_alphabetic", "alphaRanges"), ("unicode_lowercase", "lowerRanges")]:
        rs = tables.get(k, [])
        body.append("/-- `char::%s` on the non-ASCII code points, as the toolchain's std decides it (inclusive ranges) -/" % ("is_alphabetic" if "alpha" in k else "is_lowercase"))
        body.append("def %s : List (Nat × Nat) := [" % n)
        chunk = ["(%d, %d)" % (a, b) for a, b in rs]
        for i in range(0, len(chunk), 12):
            body.append("  " + ", ".join(chunk[i:i + 12]) + ("," if i + 12 < len(chunk) else ""))
        body.append("]")
    body += ["", "end Gen", ""]
    text = "\n".join(body)
    path = os.path.join(d, "Tables.lean")
    if not os.path.exists(path) or open(path).read() != text:
        with open(path, "w") as fh:
            fh.write(text)
    return path


def pipeline_lines(name, lines):
    """feed prepared request lines to the driver; returns (req_path, resp_path)"""
    os.makedirs(WORK, exist_ok=True)
    req = os.path.join(WORK, name + ".req.jsonl")
    resp = os.path.join(WORK, name + ".resp.jsonl")
    with open(req, "w") as fh:
        for l in lines:
            fh.write(json.dumps(l, ensure_ascii=False) + "\n")
    with open(req) as rq, open(resp, "w") as rs:
        p = subprocess.run([DRIVER], stdin=rq, stdout=rs, stderr=subprocess.PIPE, env=ENV)
        if p.returncode != 0:
            raise BuildFailed("driver failed rc %d: %s" % (p.returncode, p.stderr.decode(errors="replace")[-2000:]))
    return req, resp
